#!/usr/bin/env python3
"""Regenerates /verif/MANIFEST.json from the table below and validates it."""
import json, os, sys

V = os.path.dirname(os.path.dirname(os.path.abspath(__file__)))

# id -> (level category, technique, level text, level note, design ref)
CLAIMED = {
 "C03": ("model_checking",
  "TLA+ denotational spec (CueLattice.tla) checked by TLC; every TLC state replayed into the real evaluator",
  "CueLattice.tla defines Sat(atom, constraint) from the language spec; TLC enumerates every multiset of <=3 (quick) / <=4 (thorough) constraints over a 102-constraint alphabet dense around the bound constants (incl. 10, 100, -100), checks the model's own theorems (incremental = declarative denotation, order independence, monotonicity) and dumps every state; each state is rendered as CUE, evaluated alone and unified with each of 74 atoms (four floats spelled with an exponent: 5e2, -5e2, 1e3, 1e5) in two textual orders and compared with the spec's denotation. Exhaustive for the bounded alphabet; nothing is claimed for numbers beyond TLC's integer range.",
  "trusted: TLC, the Sat transcription of the spec text, the harness renderer/projection (guarded by a per-run canary that corrupts the expected denotation and must be rejected)",
  "DESIGN.md §3 C03"),
 "C16": ("model_checking",
  "TLA+ protocol spec (ModCache.tla) model-checked exhaustively with crashes and faults; real executions (every crash point, fault and concurrent runs) trace-validated by TLC against ModCacheTrace.tla",
  "ModCache.tla models the on-disk cache one action per file-system effect with process crashes, registry faults, per-version lock and per-process single-flight; TLC checks NeverServePartial, Stable, ArtefactsAtomic, WritersHoldLock, CleanOnlyStale, OneDownloadPerProcess, MarkerDiscipline exhaustively (2 processes, <=2 crashes; thorough 2x2 threads + liveness under fairness). The code is bound by trace validation: verifhook events of real child processes killed with SIGKILL at every hook point (single, double crashes; faults), each incarnation prefix with the observed disk projection, and free-running 2 processes x 2 goroutines x 2 versions, are checked by TLC against the same actions (per-actor cursors, all invariants at every step, observed stat results / return values / disk projections compared with the model).",
  "trusted: TLC; hook placement (events after the effect); the disk projection; crash = SIGKILL (no power-loss model); canaries (dropped marker event, flipped disk marker, incomplete observation) must be rejected on every run",
  "DESIGN.md §3 C16, §3a"),
 "C18": ("model_checking",
  "TLA+ controller spec (Flow.tla) model-checked over every workflow of the bounded family and every completion order; every generated workflow executed on the real tools/flow under every completion order and trace-validated by TLC (FlowTrace.tla)",
  "Flow.tla models New/runLoop (markReady, dispatch pass, collect, fold result, re-init discovering latent tasks, failure, cycle check); TLC checks StartAfterDeps, AtMostOnce, LatentDiscipline, NoDeadlock, AtExit (all run / final configuration / failure stops dependants / cycle reported), FailureStops and termination under fairness for all relations on 3 tasks and all forward DAGs on 4 (thorough also 5). Its initial states are the workflows the harness renders as CUE (direct, nested-field and computed-field references, latent tasks behind comprehension guards, one failing task) and runs on the real controller with gated runners under every completion order; each execution (state vector at every UpdateFunc callback, dependency results each runner saw, outcome, final configuration) is validated by TLC against the same actions.",
  "trusted: TLC; the rendering of a workflow as CUE; gating of runners; per-run canaries (missing dependency result, early Ready, double start) must be rejected",
  "DESIGN.md §3 C18"),
 "C14": ("model_checking",
  "TLA+ specs Mvs.tla (definition of the MVS result + order-independent traversal), ParWork.tla (work-set protocol, exhaustive + liveness), Semver.tla (precedence); TLC-generated graphs/versions replayed into the real code, par.Work hook traces validated by TLC",
  "Mvs.tla defines Want (max version over all nodes reachable from the target) and checks that every visiting order of the traversal reaches it without tripping Graph.Require's panics; every graph TLC generates (exhaustive 3 modules x 2 versions, seeded RandomSubset samples up to 6x3 with cycles and older main-module requirements) is fed to the real mvs.BuildList/Req with shuffled lists and, with the main module's list as roots (several versions per path allowed), to the module loader's pruned graph reader modrequirements.Requirements.Graph, whose build list must be the pruned selection want1 of the spec; all with random latency and compared with Want (sufficient, minimal, nothing unreachable, main first, no module visited twice, Req minimal). ParWork.tla model-checks the work-set protocol (at most once, return only when drained, no lost wake-up, termination under fairness) and the hook events of real BuildList runs (10 runners) are validated against it with the scalar state (len(todo), waiting) compared at every event. Semver.tla gives a precedence rank to 1099 structured versions; every pair is compared with semver.Compare and module.Versions.Max, plus validity/canonical form.",
  "trusted: TLC, the Want definition, rendering of versions/graphs; canaries (early return, double pick, wrong waiting count) must be rejected each run",
  "DESIGN.md §3 C14"),
 "C19": ("model_checking",
  "TLA+ spec SharedRuntime.tla (label-index protocol model-checked exhaustively; shared value as an object with immutable abstract state); TLC -simulate call/return schedules executed under the race detector and the recorded histories validated by TLC (SharedRuntimeTrace.tla)",
  "The label index double-check protocol (RLock read, Lock re-read, append) is model-checked for 3 goroutines x 2 keys (injective, inverse map, append-only, own index, termination). TLC -simulate generates call/return interleavings (program, evaluated or not, 2-8 goroutines, 40 calls over 19 methods (incl. FillPath and Encode of Go containers that hold the shared value)); each is executed in a child built with -race on one shared value or one context per goroutine; the history (every return digest, sequential baseline from a fresh context, answers recomputed afterwards, label-index pairs) is validated by TLC: every return equals the sequential answer, the value is unchanged, the label index is one injective map. A race-detector report, panic or hang of the child is a violation.",
  "trusted: TLC, Go race detector, digests of method results; goroutine interleavings inside overlapping calls are sampled, not enumerated; canaries (wrong answer, changed value) must be rejected",
  "DESIGN.md §3 C19"),
 "C17": ("model_checking",
  "TLA+ spec Tidy.tla defines what a tidy result is (TidyOK over the pruned requirement graph, NotLower) and generates universes; results of the real modload.Tidy / CheckTidy on every generated universe are evaluated by TLC (TidyCheck.tla); ModFile.tla generates module-file values and malformed variants for the round trip",
  "Tidy.tla: universes (tidy registry modules with root/sub packages, versioned dependency lists, a main module with arbitrary imports and stale/missing/unused/inconsistent dependency entries) are TLC-generated (seeded RandomSubset); TLC checks the model's own theorem (the abstract strategy yields a TidyOK result). Each universe is materialised as an in-memory registry and main module; the real Tidy runs, then again on its own output, CheckTidy, and twice with permuted files and random registry latency; TLC evaluates TidyOK (every import of the closure resolves, exactly the needed modules, each at its minimal-version-selection version), NotLower, idempotence, check acceptance and order independence on the recorded results. A panic or a 30 s hang is a violation. ModFile.tla enumerates module files and 9 malformations: well-formed ones must round-trip through Format/Parse, malformed ones must be rejected.",
  "trusted: TLC, the TidyOK transcription, the materialisation of universes. Not covered: major-version suffixes/default major versions, replace directives, build attributes; when Tidy reports an error only reproducibility under permutation is required (whether an error is mandated depends on resolution details outside the model). Canary (corrupted result) must be rejected.",
  "DESIGN.md §3 C17"),
 "C04": ("model_checking",
  "TLA+ executable model of the spec's value/default-pair rules (CueDisj.tla: U0-U2, D0-D2, M0-M1, elimination of failed marked disjuncts), checked by TLC; every TLC state replayed into the real evaluator",
  "CueDisj.tla computes for every expression D1 & D2 (& D3) of disjunctions over 10 leaves (atoms, types, a bound, open structs) with every pattern of top-level marks the value/default pair, its resolution (unique value / ambiguous / bottom), and the same for the expression unified with each of 8 concrete probes; TLC checks commutativity/rotation, idempotence on atoms and D within V. All expressions with two operands of <= 2 alternatives are enumerated exhaustively (168 511 states), three operands and up to 3 alternatives as a seeded (hash-selected, reproducible) sample plus directed disjunctions; three-alternative disjunctions are also written with nested parentheses where D0-D2 make that equivalent to the flat form. Each state is evaluated by the real evaluator: bottom iff no disjunct survives, an ambiguous choice must be an incomplete error and never a silently chosen value, a unique concrete resolution must be that value. Outcomes on which pairwise readings of the rules disagree, or with more than two marked operands (where the spec's elimination sentence is admittedly unfinished), are counted and left out.",
  "trusted: TLC, the transcription of the rules, the renderer; canaries (flipped expectation) must be noticed. Two genuine divergences are known findings: nested spellings (a family, keyed coarsely: they document the divergence but cannot flag a new member) and an operand-order dependence with three operands (recognised by re-evaluating the other orders).",
  "DESIGN.md §3 C04"),
 "C05": ("model_checking",
  "TLA+ membership checker for field constraints and closedness (CueStruct.tla: Admits over schema syntax trees), checked by TLC; every (schemas, data) state replayed into the real evaluator",
  "CueStruct.tla gives each schema conjunct a syntax tree (regular/optional/required fields, patterns, ellipsis, close(), definitions, embeddings, a nested struct) and defines Admits(schemas, data) from the language specification: present restrictable fields allowed by every closed conjunct (embeddings widen, definitions close recursively, close() one level), every applicable constraint satisfied with a concrete result, every required field present, hidden/definition fields never restricted. TLC enumerates every multiset of <= 3 conjuncts of the 24-schema alphabet with each of 14 data structs (exhaustive), checks order-freeness and that open conjuncts never restrict, and each state is unified by the real evaluator in two textual orders; the verdict Validate(Concrete(true)) == nil must equal Admits.",
  "trusted: TLC, the transcription of the spec rules for the alphabet's constructs, the renderer (fresh definition names); canary (flipped verdict) must be noticed. Constructs outside the alphabet (comprehensions, dynamic fields, deeper nesting) are not covered.",
  "DESIGN.md §3 C05"),
 "C01": ("model_checking",
  "TLA+ spec of the meaning-preserving rewrites (CueRewrite.tla); TLC explores the rewrite orbit of seed packages; every orbit state is evaluated by the real evaluator and its projection compared with the seed's",
  "CueRewrite.tla models a package (two files, declarations of a b c, conjunct lists from a 26-entry pool incl. defaults, closed structs, a definition, patterns, lists, sibling references) and the rewrites the property names (swap declarations, swap/regroup/duplicate conjuncts, & _, sole embedding, split/merge same-label declarations, move between files, swap files) as actions; TLC checks the rewrites conserve the (label, conjunct) pairs and enumerates every state reachable in <= 2 (quick) / 3 (thorough) rewrites from 7 fixed and a seeded sample of random seed programs. Each state is rendered as a multi-file package and evaluated; per field the projection (error class, kind, concrete scalar, fields and their kinds, closedness, default, concreteness, and acceptance of 26 probes unified in-language at the field and its x / y children) must equal the seed's. Three genuine order dependences found on the unchanged tree are recorded as known findings.",
  "trusted: TLC, the projection (guarded by a canary: an altered program must project differently). Random seeds in which an erroneous field is referenced from another field are skipped (known finding class). Comprehensions, dynamic fields, builtins and imports are not in the pool.",
  "DESIGN.md §3 C01"),
 "C15": ("model_checking",
  "TLA+ model of the module-zip rules (ModZip.tla: per-entry verdict valid/omitted/invalid for file-list and zip checking), checked by TLC; every archive state materialised and run through CheckFiles, CheckDir, CheckZip, Create and Unzip, with hostile zip headers",
  "ModZip.tla assigns each of 27 entries (one path per rule of the package documentation / CheckFilePath: dot-dot, absolute, backslash, trailing dot, reserved names, invalid UTF-8, cue.mod case variants, nested module (as a directory and as a regular file named cue.mod), local-module file, licence, hg archival file, file-and-directory, case collision, symlink, oversize) its verdict in the context of an archive and checks that a created zip is acceptable and where the checkers may differ. Every subset of <= 3 (thorough 4) entries is checked as a file list, as a directory when representable (must agree with the file list), created + CheckZip + Unzip (round trip reproduces exactly the valid files), and written raw as a zip, also with lying declared sizes, a directory entry and a duplicate name; every Unzip runs in a scratch directory that is walked afterwards: nothing outside the target, only regular files, never more bytes than declared.",
  "trusted: TLC, the transcription of the documentation; for a colliding pair only 'at least one rejected' is claimed; a zip entry carrying symlink mode bits may be accepted or rejected (the documentation and the extraction behaviour differ), extraction safety is checked independently. Canary (flipped archive verdict) must be noticed.",
  "DESIGN.md §3 C15"),
 "C13": ("model_checking",
  "TLA+ independent JSON Schema validator (JsonSchema.tla: Valid(schema, instance) for the keyword subset), checked by TLC; every schema state translated by the real importer and every instance unified with the generated CUE; Generate + Extract round trip",
  "JsonSchema.tla defines draft 2020-12 validity for type, enum, const, numeric and string bounds, pattern, properties, required, additionalProperties, patternProperties, propertyNames, min/maxProperties, items, min/maxItems, uniqueItems, contains, allOf/anyOf/oneOf/not, if/then/else and $defs/$ref over a 28-value instance universe, with sanity theorems (double negation, allOf = intersection, oneOf within anyOf). Every schema state (all keywords with all leaf sub-schemas, all leaf pairs under the combinators, if/then/else over a small set; thorough: sampled keyword pairs and depth-2 nesting) is rendered as JSON, run through jsonschema.Extract, compiled, and every instance is unified with it in-language; the verdict must equal Valid. Then jsonschema.Generate followed by Extract must accept the same instances. Five defect classes found on the unchanged tree are recorded as known findings.",
  "trusted: TLC, the Valid transcription, the JSON rendering; schemas the importer refuses are counted, not judged. Canary (flipped verdict set) must be noticed.",
  "DESIGN.md §3 C13"),
 "C09": ("model_checking",
  "TLA+ specs CueLiteral.tla (space of strings x quoting forms; grammar recogniser of string literals) and CueTokens.tla (token soups), enumerated by TLC; every state run through literal.Quote/Unquote, scanner, parser (and a sample through the evaluator)",
  "CueLiteral.tla enumerates every sequence of <= 3 (thorough 4) symbols of a 17-symbol adversarial alphabet with each of 48 quoting forms (string/bytes x single/multi-line/optional multi-line x optional hashes x ASCII-only/graphic-only): Unquote(Quote(s)) must be s, and the quoted text must scan and parse as one literal. Its recogniser IsLit (single-line and multi-line literals with # delimiters and escapes, as a recursive operator) classifies every text over { \" \\ n a # LF } up to length 6 (thorough 7); scanner, parser and literal.Unquote must all agree with it. CueTokens.tla enumerates token soups of <= 3 (thorough 4) tokens from 36; each is parsed in two spacings: no panic, every error/node position inside the input, children within parents, siblings ordered.",
  "trusted: TLC, the recogniser (calibrated to full agreement with the three implementations on the unchanged tree), the position checker (canary: nodes outside the input must be flagged). Arbitrary byte strings are not enumerated: totality is claimed for grammar-shaped inputs only.",
  "DESIGN.md §3 C09"),
 "C10": ("exploration",
  "TLA+ spec DataCodec.tla (document shapes x key/leaf categories x behaviours, protocol: every operation preserves the data) enumerated by TLC; every state instantiated from adversarial pools and replayed on MarshalJSON / JSON Extract with Go's encoding/json as independent decoder",
  "Model-driven exploration: DataCodec.tla enumerates every one-member document (8 key categories x 5 shapes x 26 x 26 leaf categories) and a seeded sample of two-member documents, each with the JSON behaviours (MarshalJSON -> Go decode; MarshalJSON -> Extract -> MarshalJSON -> Go decode; Go encode -> Extract -> MarshalJSON -> Go decode). After every step the bytes are read by Go's encoding/json (UseNumber, ordered tokens) or the value is projected, and compared with the generator's ground truth: strings byte for byte, numbers by exact rational value and kind, keys in declaration order. A fixed list of near-valid documents must be rejected and of unusual valid ones accepted with the same meaning.",
  "trusted: TLC, the independent decoders (Go encoding/json with UseNumber and ordered tokens; yaml.v3 node tags), the category pools; canary: the data comparison must notice a changed scalar kind, number kind and key order. Byte-level content outside the pools is not covered (DESIGN.md §7).",
  "DESIGN.md §3 C10-C12"),
 "C11": ("exploration",
  "TLA+ spec DataCodec.tla enumerated by TLC; every state instantiated from adversarial pools (YAML 1.1/1.2 implicit types, indicators in first/inner/last position, control/non-BMP characters, newline-only strings) and replayed on the YAML encoder/decoder with yaml.v3 as independent decoder",
  "Model-driven exploration as for C10 with the YAML behaviours (Encode -> Extract, twice; MarshalJSON -> YAML Extract of the JSON text). The encoder output is read back with yaml.v3 (node tags decide string vs number vs bool vs null) and with CUE's decoder and must equal the ground truth, keys included. Every text of the JSON scalar grammar JsonText.tla (strings with all escapes and surrogate pairs, numbers) is also fed to the YAML decoder as a value, list element, member and key and must denote what the grammar says.",
  "trusted: TLC, the independent decoders (Go encoding/json with UseNumber and ordered tokens; yaml.v3 node tags), the category pools; canary: the data comparison must notice a changed scalar kind, number kind and key order. Byte-level content outside the pools is not covered (DESIGN.md §7).",
  "DESIGN.md §3 C10-C12"),
 "C12": ("exploration",
  "TLA+ spec DataCodec.tla (CLI family: export --out E [--escape | -e path | package argument] -> import -> export json) enumerated/sampled by TLC; every state replayed on a cue binary built from the working tree",
  "Model-driven exploration: a seeded sample of one- and two-member documents x 8 command-line behaviours over json, yaml, toml and cue, with --escape, -e and package-vs-file arguments; every exported text is read with an independent decoder and compared with the ground truth, every step must exit 0 (all data is concrete; TOML only for its safe subset: no null, integers within int64, 64-bit floats, key order not compared), and import followed by export --out json must reproduce the data.",
  "trusted: TLC, the independent decoders (Go encoding/json with UseNumber and ordered tokens; yaml.v3 node tags), the category pools; canary: the data comparison must notice a changed scalar kind, number kind and key order. Byte-level content outside the pools is not covered (DESIGN.md §7).",
  "DESIGN.md §3 C10-C12"),
 "C06": ("model_checking",
  "TLA+ spec CueArith.tla (result kind, error conditions, exact results as fractions, Euclidean/truncated division identities, total order, symbolic large operands as polynomials in B, structural literal spellings with their value), checked by TLC; every state evaluated by the real evaluator and compared with exact big-number arithmetic",
  "CueArith.tla gives for every operator in {+ - * / div mod quo rem == != < <= > >=} and every pair of 24 small numbers (ints and quarter-step decimals) the required kind, whether an error is required, and the exact result as a fraction; TLC checks the division identities and trichotomy. The harness evaluates each expression: error iff required, int exactly when the spec says so, value equal to the exact fraction (quotients rounded to 34 significant digits with math/big), and printing (CUE and JSON) reads back as the same number. (B+i) op (B+j) for i, j in -2..2 is computed symbolically in the model and instantiated at +-2^63, +-2^64, +-10^34, +-10^400. 441 structural literal spellings (bases, _ grouping, fraction, exponent, SI/IEC multipliers) must denote exactly mantissa * 10^e10 * 2^e2 with the right kind. A genuine loss of integer exactness beyond 34 digits found on the unchanged tree is recorded as known finding.",
  "trusted: TLC, math/big, the rendering; canary (perturbed expectation) must be noticed. Not covered: random operands with hundreds of digits, pkg/math beyond div/mod/quo/rem (TLC integers are 32 bit).",
  "DESIGN.md §3 C06"),
 "C20": ("model_checking",
  "TLA+ spec Trim.tla (package space: schema declarations x data declarations x file split; protocol P -trim-> P1 -trim-> P2) enumerated by TLC; every package trimmed twice by the cue binary built from the working tree and all three evaluated",
  "Trim.tla enumerates packages made of 14 schema declarations (a comprehension writing back into the struct it iterates over, a definition, a pattern with defaults, a comprehension, an embedded defaulted disjunction, a computed field, defaults, disjunctions with two defaults, a list schema; all of them or all but selected ones) and up to 2 (thorough 3) of 22 data declarations that repeat, refine or contradict what the schemas imply, in one file or split over two. Each package is evaluated, trimmed with `cue trim`, evaluated again - per top-level field the JSON with defaults resolved (key order ignored), the printed final form when incomplete, or ERROR must be identical - and trimmed again, which must leave the files byte-identical. An abort of the trimmer's own self-check counts as a violation.",
  "trusted: TLC (enumeration only: the verdict is metamorphic - the package's own evaluation before trimming is the oracle), the projection; packages that are in error before trimming may be refused. The 'removed only if implied' clause is covered through the unchanged evaluation; no independent Redundant oracle was built.",
  "DESIGN.md §3 C20"),
 "C07": ("exploration",
  "TLA+ spec CuePrint.tla (programs = CueRewrite seed packages + extra declarations, profiles and what each promises to show) enumerated by TLC; every (program, profile) state printed by the real exporter / CLI, the text re-evaluated on its own and compared with the original",
  "Model-driven exploration: seed packages over the CueRewrite conjunct pool (defaults, bounds, closed structs, a definition, patterns, lists, sibling references) plus one of 12 extra declarations (imports with resolved and unresolved builtin calls, comprehension, let, local definition, hidden field, defaulted struct disjunction, integer and float ranges the printer may simplify to uint or sized types) are evaluated and printed with Value.Syntax(cue.All) and Value.Syntax(cue.Final) + formatter, and with `cue eval` / `cue export --out cue` (binary built from the working tree). The text must compile on its own (no dangling reference, no missing import); for the All profile every field must project identically (error class, kind, scalar, fields and their kinds, closedness, default, concreteness, in-language probes), for Final / eval / export the data of concrete fields must be identical and cue export must exit non-zero exactly when a regular field is not concrete.",
  "trusted: TLC (enumeration), the projection of C01; canary: an altered text must project differently. Packages with a field in error are only compared under the All profile. Values outside the pool (deep nesting, attributes, comments) are not covered.",
  "DESIGN.md §3 C07"),
 "C08": ("exploration",
  "TLA+ spec FmtLayout.tla (files = sequences of declaration kinds x layout record x comment slots; protocol parse -> format -> parse -> format) enumerated by TLC; every state rendered as text and run through parser, format.Source (and a sample through `cue fmt`), with a position-free syntax tree dump compared before and after",
  "Model-driven exploration: FmtLayout.tla enumerates every sequence of <= 2 of 28 declaration kinds (fields, nested structs, field chains, lists, embeddings, let, attributes, for/if comprehensions, calls on one and several lines, optional/required fields, definitions, multi-line strings and bytes with and without interpolation, operator chains, pattern constraints, list comprehensions, aliases, ellipses, dynamic fields, unary operators, multi-line disjunctions) under a seeded sample of 6 (thorough 48) of 1944 layouts (member separator, spaces after colons and around operators, redundant parentheses, blank lines, trailing commas, indentation, closing bracket hugging the last element) with comments in up to two of eight slots (doc, end of line, after an opening brace, before a closing bracket, between members, after a colon, after a list element, after an operator). Each file must parse; format.Source must succeed; the output must parse to the same position-free tree (node kinds, literal text with multi-line string indentation normalised, operators, attributes, every comment group with its doc/line flags and attachment position); formatting again must be byte-identical; format.Simplify output must parse and be idempotent; a sample goes through the cue binary (`cue fmt --files`, then `cue fmt --check`). A second input family (FmtLayout.CorpusInit) takes the repository's own ~4000 parseable CUE sources (files and txtar sections) unchanged and with one whitespace / comment / comma / parenthesis mutation at a token boundary (8 k sampled mutants, thorough 200 k); unchanged sources are keyed by file name, mutants only by kind of failure (a known family of comment-placement defects of the new formatter). Four genuine defects found this way were repaired (fix: 5c6c9ae, 78b236a, 977d9cf, 3a178d9), the rest is recorded as known findings; a failing model state is shrunk to (kind, comment slots) to name its class.",
  "trusted: TLC (enumeration), the renderer from states to text (files that do not parse are counted and fail the run above 20%), the tree dump; canary: a file with a moved comment must dump differently. Corpus mutants cannot flag a new member of the known defect family (their class is the kind of failure only); the Line flag of comments and the quoting of string labels are treated as layout; -s is only checked for parseability and idempotence.",
  "DESIGN.md §3 C08"),
 "C02": ("exploration",
  "TLA+ spec Pipeline.tla (the pipeline parse -> compile -> validate -> concrete -> export CUE/JSON/YAML as a state machine with ok/err outcomes only, stage-consistency rules, three runs that must agree; plus the input spaces: programs over a pool of erroneous / cyclic expressions, byte-level mutants, token soups) model-checked by TLC (TypeOK, Repeatable, ParseErrorEnds, ErrorValueNotExported, Terminates); every input run three times in isolated worker processes and the recorded traces validated by TLC against PipelineTrace.tla",
  "Trace validation of real executions: each input is run in a context already used for other programs, in a fresh context and in another process, inside worker processes with a 10 s / 2 GB ceiling (a worker that dies, hangs or exceeds the ceiling yields an abort event for the program it was on and is restarted on the rest). The events (run, stage, ok/err/panic, digest of the printed CUE / JSON / YAML or of the full error text) of all three runs form one trace; TLC accepts it only if it is a behaviour of Pipeline.tla: stages in order, no outcome other than ok/err (a panic leaving the API, a stack overflow, a timeout have no action), compile error => validation and data exports fail, validation error => concrete validation fails, all runs complete and equal event by event. The hand-picked programs and a sample also go three times through the cue binary built from the working tree (cue eval, cue export --out json / cue; family cli of the same spec: exit status 0 or 1 only, identical output). Inputs: all 16 hand-picked cyclic / erroneous programs and a seeded sample of 2500 (thorough 40000) of the 10^6 programs a/b/c over a 114-expression pool, 1500 (20000) byte-level mutants of four seed programs, all token soups up to 2 (3) tokens. One genuine crash (stack overflow on a bound embedded next to a required field) was repaired (fix: a8de011); a second evaluator overflow (db9203c) and a field-order non-determinism (3df9542) were repaired as well; a context-history dependence of error text is recorded as known finding.",
  "trusted: TLC, the worker's stage wrapper (recover per stage; canaries: a changed digest, a panic event and a truncated trace must be rejected by TLC). Not exhaustive: the program space is sampled, arbitrary byte strings are represented by mutants and soups only; non-determinism is only detected if it shows within three runs.",
  "DESIGN.md §3 C02"),
}

NOT_YET = "check not built yet in this round (see DESIGN.md §8 for the order of construction)"
NA = {}

def main():
    props = [json.loads(l)["id"] for l in open(os.path.join(V, "properties.jsonl"))]
    checks = []
    for pid in props:
        if pid not in CLAIMED:
            continue
        cat, tech, text, note, ref = CLAIMED[pid]
        checks.append({
            "property_id": pid,
            "quick_cmd": f"bin/check {pid} quick",
            "thorough_cmd": f"bin/check {pid} thorough",
            "evidence_file": f"/verif/evidence/{pid}.json",
            "replay_cmd_template": f"bin/check {pid} quick --replay {{path}}",
            "engine": "vh",
            "level_claimed": {"category": cat, "text": text, "design_ref": ref},
            "level_note": note,
            "technique": tech,
        })
    na = [{"property_id": p, "reason": NA.get(p, NOT_YET)} for p in props if p not in CLAIMED]
    hooks_commits = []
    hc = os.path.join(V, "hooks_commits.txt")
    if os.path.exists(hc):
        hooks_commits = [l.split()[0] for l in open(hc) if l.strip() and not l.startswith("#")]
    m = {
        "version": 1,
        "setup_cmd": "bin/setup",
        "hooks": {
            "guard": "verif",
            "enable": "go build -tags verif (the harness module /verif/harness replaces cuelang.org/go with /repo, so every check compiles /repo's working tree with the tag on)",
            "baseline_off_cmd": "cd /repo && GOFLAGS=-mod=mod GOPROXY=off go test -json -vet=off -count=1 -timeout 25m ./...",
            "source_commits": hooks_commits,
            "add_only": True,
        },
        "engines": [{
            "name": "vh",
            "path": "/verif/harness",
            "serves_properties": [c["property_id"] for c in checks],
            "kind_free_text": "Go harness: runs TLC on the TLA+ specs in /verif/spec, replays TLC states/behaviours into the real code and validates recorded traces against the trace specs",
        }],
        "checks": checks,
        "not_applicable": na,
        "notes": "All checks: TLA+ spec + TLC + conformance against /repo's working tree. exit 0 ok, 1 VIOLATION (reproduced on the real code), 2 tool trouble. VERIF_SEED and VERIF_TIER honoured.",
    }
    out = os.path.join(V, "MANIFEST.json")
    json.dump(m, open(out, "w"), indent=1)
    open(out, "a").write("\n")
    try:
        import jsonschema
        jsonschema.validate(m, json.load(open("/root/.vp/MANIFEST.schema.json")))
        print("MANIFEST.json valid;", len(checks), "checks,", len(na), "not applicable")
    except ImportError:
        print("jsonschema not available; wrote without validation")

if __name__ == "__main__":
    main()

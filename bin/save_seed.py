#!/usr/bin/env python3
"""save_seed.py ID "<checks that catch it>" "<how>"  : copies a verified seeded change from /tmp/wt-ID/_out to /verif/seeded/ID."""
import json, os, shutil, sys
id_, caught, how = sys.argv[1], sys.argv[2], sys.argv[3]
src = f"/tmp/wt-{id_}/_out"
dst = f"/verif/seeded/{id_}"
if os.path.exists(dst):
    shutil.rmtree(dst)
os.makedirs(dst)
shutil.copy(f"{src}/patch.diff", dst)
if os.path.isdir(f"{src}/demo"):
    shutil.copytree(f"{src}/demo", f"{dst}/demo")
meta = json.load(open(f"{src}/meta.json"))
log = open(f"{src}/verify.log").read() if os.path.exists(f"{src}/verify.log") else ""
meta["verified_by_me"] = {
    "how": "scratch worktree /tmp/wt-%s: patch applied -> go build (also -tags verif), the listed existing tests, demo fails; patch removed (git apply -R) -> demo passes" % id_,
    "existing_tests_ok": "FAIL" not in log.split("== demo with patch")[0],
    "demo_fails_with_patch": "demo exit with patch: 1" in log,
    "demo_passes_without_patch": "demo exit without patch: 0" in log,
}
meta["caught_by"] = caught
meta["caught_how"] = how
json.dump(meta, open(f"{dst}/meta.json", "w"), indent=1)
open(f"{dst}/verify.log", "w").write(log[-6000:])
print(id_, meta["verified_by_me"])

package main

import (
	"fmt"
	"math/rand"
	"strings"
	"sync/atomic"
	"time"

	"cuelang.org/go/cue"
	"cuelang.org/go/cue/cuecontext"
	"cuelang.org/go/verifharness/kit"
	"cuelang.org/go/verifharness/tlaval"
)

func init() { register("C03", "model_checking", checkC03) }

// c03Mismatch describes one disagreement between the evaluator and the
// spec's denotation for an expression.
type c03Mismatch struct {
	Expr, Atom, What string
}

// c03Eval evaluates expr alone and unified with every atom in one struct
// (`e: EXPR`, `aK: EXPR & atomK`) and compares with den (atom indices,
// 1-based). The order of conjuncts is the order given.
func c03Eval(ctx *cue.Context, t *latTables, parts []string, den map[int]bool, atomFirst bool) (ms []c03Mismatch, bottom bool, concrete bool) {
	expr := strings.Join(parts, " & ")
	var b strings.Builder
	b.WriteString("e: " + expr + "\n")
	for i, a := range t.Atoms {
		if atomFirst {
			fmt.Fprintf(&b, "a%d: %s & %s\n", i+1, a.CUE(), expr)
		} else {
			fmt.Fprintf(&b, "a%d: %s & %s\n", i+1, expr, a.CUE())
		}
	}
	v := ctx.CompileString(b.String())
	e := v.LookupPath(cue.ParsePath("e"))
	if !e.Exists() {
		return []c03Mismatch{{expr, "", "does not compile: " + fmt.Sprint(v.Err())}}, false, false
	}
	bottom = e.Err() != nil
	if bottom && len(den) != 0 {
		ms = append(ms, c03Mismatch{expr, "", fmt.Sprintf("evaluates to bottom (%v) but the spec admits %d atoms of the universe", e.Err(), len(den))})
	}
	if a, exact, ok := atomOfValue(e); ok {
		concrete = true
		// The evaluator reports a single atom: it must be the only member.
		idx := -1
		for i, u := range t.Atoms {
			if exact && u == a {
				idx = i + 1
			}
		}
		if idx < 0 || !den[idx] || len(den) != 1 {
			ms = append(ms, c03Mismatch{expr, a.CUE(), fmt.Sprintf("evaluator reports the concrete atom %s but the spec's denotation has %d atoms (contains it: %v)", a.CUE(), len(den), idx > 0 && den[idx])})
		}
	}
	for i, a := range t.Atoms {
		w := v.LookupPath(cue.MakePath(cue.Str(fmt.Sprintf("a%d", i+1))))
		ok := w.Validate(cue.Concrete(true)) == nil
		want := den[i+1]
		if ok != want {
			ms = append(ms, c03Mismatch{expr, a.CUE(), fmt.Sprintf("unification with atom succeeds=%v, spec says member=%v (err=%v)", ok, want, w.Err())})
			continue
		}
		if ok {
			got, exact, isAtom := atomOfValue(w)
			if !isAtom || !exact || got != a {
				ms = append(ms, c03Mismatch{expr, a.CUE(), fmt.Sprintf("unification with atom yields %v, not the atom", w)})
			}
		}
	}
	return ms, bottom, concrete
}

func checkC03(r *kit.Run) {
	r.Assumptions = []string{
		"atoms and bound constants are those of spec/CueLattice.tla (ints -3..6 and 8-bit edges, quarter-step floats, 6 strings, 6 byte strings, bools, null); numbers outside TLC's 32-bit range are not enumerated",
		"the regexp match table of the spec is checked against Go regexp at start-up",
	}
	t := loadLatticeTables(r)
	cfg := kit.Pick(r, "CueLattice_quick.cfg", "CueLattice_thorough.cfg")
	res, err := kit.RunTLC(kit.TLCOpts{Module: "CueLattice", Cfg: cfg, Dump: true, Timeout: 40 * time.Minute, Heap: "16g"})
	defer res.Cleanup()
	if err != nil || res.TimedOut {
		r.Fatal("TLC: %v timedout=%v\n%s", err, res.TimedOut, res.Tail(30))
	}
	if !res.OK() {
		// A theorem of the model failed: the model is inconsistent, not the code.
		r.Fatal("CueLattice model property failed (model-level, not a code violation): %s\n%s", res.Violation, res.Tail(40))
	}
	r.AddTLC(cfg, res)
	r.Logf("TLC: %d distinct states, %.1fs", res.Distinct, res.Wall.Seconds())

	type wstate struct {
		ctx *cue.Context
		n   int
		rng *rand.Rand
	}
	nw := 16
	ws := make([]*wstate, nw)
	for i := range ws {
		ws[i] = &wstate{ctx: cuecontext.New(), rng: rand.New(rand.NewSource(r.Seed*1000 + int64(i)))}
	}
	var nontrivial, bottoms, concretes, evals, canaries, canaryCaught int64
	n, err := kit.ForEachState(res.DumpPath, []string{"cs", "den"}, nw, func(w int, st tlaval.State) {
		s := ws[w]
		s.n++
		if s.n%500 == 0 {
			s.ctx = cuecontext.New()
		}
		cs := tlaval.IntSeq(st["cs"])
		if len(cs) == 0 {
			return
		}
		den := map[int]bool{}
		for _, a := range tlaval.IntSet(st["den"]) {
			den[a] = true
		}
		parts := make([]string, len(cs))
		for i, c := range cs {
			parts[i] = t.Alphabet[c-1].CUE()
		}
		// textual order: as generated, and one seeded shuffle with the atom in front
		ms, bottom, concrete := c03Eval(s.ctx, t, parts, den, false)
		atomic.AddInt64(&evals, int64(len(t.Atoms)+1))
		if len(cs) > 1 {
			sh := append([]string(nil), parts...)
			s.rng.Shuffle(len(sh), func(i, j int) { sh[i], sh[j] = sh[j], sh[i] })
			ms2, _, _ := c03Eval(s.ctx, t, sh, den, true)
			ms = append(ms, ms2...)
			atomic.AddInt64(&evals, int64(len(t.Atoms)+1))
		}
		for _, m := range ms {
			r.Violation(m.Expr+" ## "+m.Atom, m.What, map[string]any{"expr": m.Expr, "atom": m.Atom, "cs": cs, "spec_den": tlaval.IntSet(st["den"])})
		}
		if len(den) != 0 && len(den) != len(t.Atoms) {
			atomic.AddInt64(&nontrivial, 1)
		}
		if bottom {
			atomic.AddInt64(&bottoms, 1)
		}
		if concrete {
			atomic.AddInt64(&concretes, 1)
		}
		if s.n%2000 == 1 {
			r.Sample(map[string]any{"expr": strings.Join(parts, " & "), "spec_den_size": len(den), "evaluator_bottom": bottom, "evaluator_concrete": concrete})
			// canary: flip one membership; the comparison must notice.
			bad := map[int]bool{}
			for k := range den {
				bad[k] = true
			}
			flip := 1 + s.rng.Intn(len(t.Atoms))
			if bad[flip] {
				delete(bad, flip)
			} else {
				bad[flip] = true
			}
			cm, _, _ := c03Eval(s.ctx, t, parts, bad, false)
			atomic.AddInt64(&canaries, 1)
			if len(cm) > 0 {
				atomic.AddInt64(&canaryCaught, 1)
			}
		}
	})
	if err != nil {
		r.Fatal("reading dump: %v", err)
	}
	if n != res.Distinct {
		r.Fatal("dump has %d states, TLC reported %d", n, res.Distinct)
	}
	if (canaries == 0 && r.Violations() == 0) || canaryCaught != canaries {
		r.Fatal("canary: %d of %d corrupted denotations were detected; the comparison is vacuous", canaryCaught, canaries)
	}
	r.Set("traces_validated_against_impl", n)
	r.Set("evaluations", int(evals))
	r.Set("distinct_nontrivial", int(nontrivial))
	r.Set("evaluator_bottom_states", int(bottoms))
	r.Set("evaluator_concrete_states", int(concretes))
	r.Set("canaries_rejected", int(canaryCaught))
	r.Set("exhaustive", true)
	r.Set("rule", fmt.Sprintf("every multiset of <= %d constraints over the %d-constraint alphabet of CueLattice.tla (TLC state = one multiset with its denotation over %d atoms); each state is rendered as `c1 & c2 & ...`, evaluated alone and unified with every atom, in generated order and in one seeded shuffle with the atom first; non-trivial = denotation neither empty nor the whole universe", kit.Pick(r, 3, 4), len(t.Alphabet), len(t.Atoms)))
}

package main

import (
	"context"
	"encoding/json"
	"errors"
	"fmt"
	"math/rand"
	"sort"
	"strings"
	"sync"
	"sync/atomic"
	"testing/fstest"
	"time"

	"cuelang.org/go/internal/mod/modload"
	"cuelang.org/go/internal/mod/semver"
	"cuelang.org/go/mod/modfile"
	"cuelang.org/go/mod/modregistry"
	"cuelang.org/go/mod/module"
	"cuelang.org/go/verifharness/kit"
	"cuelang.org/go/verifharness/tlaval"
)

func init() { register("C17", "model_checking", checkC17) }

// tlaJSON converts a TLA+ value to JSON-able Go data (sequences and sets to
// arrays, records to objects, functions over 1..n to arrays).
func tlaJSON(v tlaval.Value) any {
	switch x := v.(type) {
	case tlaval.Int:
		return int(x)
	case tlaval.Bool:
		return bool(x)
	case tlaval.Str:
		return string(x)
	case tlaval.Model:
		return string(x)
	case tlaval.Seq:
		out := make([]any, len(x))
		for i, e := range x {
			out[i] = tlaJSON(e)
		}
		return out
	case tlaval.Set:
		out := make([]any, len(x))
		for i, e := range x {
			out[i] = tlaJSON(e)
		}
		return out
	case tlaval.Rec:
		out := map[string]any{}
		for k, e := range x {
			out[k] = tlaJSON(e)
		}
		return out
	case tlaval.Fun:
		isSeq := true
		for _, p := range x {
			if _, ok := p.K.(tlaval.Int); !ok {
				isSeq = false
			}
		}
		if isSeq {
			out := make([]any, len(x))
			for _, p := range x {
				out[tlaval.AsInt(p.K)-1] = tlaJSON(p.V)
			}
			return out
		}
		out := map[string]any{}
		for _, p := range x {
			out[tlaval.AsStr(p.K)] = tlaJSON(p.V)
		}
		return out
	}
	panic(fmt.Sprintf("tlaJSON: %T", v))
}

// ---- universe ----

type tdMV struct {
	Imps   [][2]int `json:"imps"`
	Depv   []int    `json:"depv"`
	HasSub bool     `json:"hasSub"`
}
type tdUniverse struct {
	MV   [][]tdMV `json:"mv"`
	Main struct {
		Imps [][2]int `json:"imps"`
		Deps []int    `json:"deps"`
	} `json:"main"`
}

func tdModPath(m int) string { return fmt.Sprintf("m%d.test@v0", m) }
func tdVer(v int) string     { return fmt.Sprintf("v0.%d.0", v) }
func tdImport(r [2]int) string {
	if r[1] == 1 {
		return fmt.Sprintf("m%d.test@v0:m%d", r[0], r[0])
	}
	return fmt.Sprintf("m%d.test/sub@v0", r[0])
}

func tdModuleFile(path string, deps map[string]string) string {
	var b strings.Builder
	fmt.Fprintf(&b, "module: %q\nlanguage: version: \"v0.9.0\"\n", path)
	if len(deps) > 0 {
		ks := []string{}
		for k := range deps {
			ks = append(ks, k)
		}
		sort.Strings(ks)
		b.WriteString("deps: {\n")
		for _, k := range ks {
			fmt.Fprintf(&b, "\t%q: v: %q\n", k, deps[k])
		}
		b.WriteString("}\n")
	}
	return b.String()
}

func tdPkgFile(pkg string, imps [][2]int) string {
	var b strings.Builder
	fmt.Fprintf(&b, "package %s\n", pkg)
	if len(imps) > 0 {
		b.WriteString("import (\n")
		for i, r := range imps {
			fmt.Fprintf(&b, "\ti%d %q\n", i, tdImport(r))
		}
		b.WriteString(")\n")
		for i := range imps {
			fmt.Fprintf(&b, "x%d: i%d\n", i, i)
		}
	}
	return b.String()
}

// tdRegistry is an in-memory modload.Registry with random latency.
type tdRegistry struct {
	u     *tdUniverse
	mu    sync.Mutex
	rng   *rand.Rand
	delay time.Duration
	fetch atomic.Int64
}

func (r *tdRegistry) sleep() {
	if r.delay == 0 {
		return
	}
	r.mu.Lock()
	d := time.Duration(r.rng.Int63n(int64(r.delay)))
	r.mu.Unlock()
	time.Sleep(d)
}

func (r *tdRegistry) lookup(mv module.Version) (m, v int, ok bool) {
	if _, err := fmt.Sscanf(mv.Path(), "m%d.test@v0", &m); err != nil || m < 1 || m > len(r.u.MV) {
		return 0, 0, false
	}
	for i := 1; i <= len(r.u.MV[m-1]); i++ {
		if tdVer(i) == mv.Version() {
			return m, i, true
		}
	}
	return 0, 0, false
}

func (r *tdRegistry) files(m, v int) fstest.MapFS {
	e := r.u.MV[m-1][v-1]
	deps := map[string]string{}
	for d, v := range e.Depv {
		if v != 0 {
			deps[tdModPath(d+1)] = tdVer(v)
		}
	}
	mfs := fstest.MapFS{
		"cue.mod/module.cue": {Data: []byte(tdModuleFile(tdModPath(m), deps))},
		"top.cue":            {Data: []byte(tdPkgFile(fmt.Sprintf("m%d", m), e.Imps))},
	}
	if e.HasSub {
		mfs["sub/x.cue"] = &fstest.MapFile{Data: []byte("package sub\nv: 1\n")}
	}
	return mfs
}

func (r *tdRegistry) Fetch(ctx context.Context, mv module.Version) (module.SourceLoc, error) {
	r.sleep()
	r.fetch.Add(1)
	m, v, ok := r.lookup(mv)
	if !ok {
		return module.SourceLoc{}, fmt.Errorf("module %v: %w", mv, modregistry.ErrNotFound)
	}
	return module.SourceLoc{FS: r.files(m, v), Dir: "."}, nil
}

func (r *tdRegistry) ModFile(ctx context.Context, mv module.Version) (*modfile.File, error) {
	r.sleep()
	m, v, ok := r.lookup(mv)
	if !ok {
		return nil, fmt.Errorf("module %v: %w", mv, modregistry.ErrNotFound)
	}
	return modfile.Parse(r.files(m, v)["cue.mod/module.cue"].Data, "cue.mod/module.cue")
}

func (r *tdRegistry) ModuleVersions(ctx context.Context, mpath string) ([]string, error) {
	r.sleep()
	var m int
	base := mpath
	if i := strings.Index(mpath, "@"); i >= 0 {
		base = mpath[:i]
		if mpath[i:] != "@v0" {
			return nil, nil
		}
	}
	if _, err := fmt.Sscanf(base, "m%d.test", &m); err != nil || fmt.Sprintf("m%d.test", m) != base || m < 1 || m > len(r.u.MV) {
		return nil, nil
	}
	var out []string
	for v := 1; v <= len(r.u.MV[m-1]); v++ {
		out = append(out, tdVer(v))
	}
	semver.Sort(out)
	return out, nil
}

// tdMainFS renders the main module. swap exchanges the contents of the two
// source files (file order independence).
func tdMainFS(u *tdUniverse, deps []int, swap bool) fstest.MapFS {
	d := map[string]string{}
	for m, v := range deps {
		if v != 0 {
			d[tdModPath(m+1)] = tdVer(v)
		}
	}
	half := len(u.Main.Imps) / 2
	a, b := u.Main.Imps[:half], u.Main.Imps[half:]
	if swap {
		a, b = b, a
	}
	return fstest.MapFS{
		"cue.mod/module.cue": {Data: []byte(tdModuleFile("main.test@v0", d))},
		"a.cue":              {Data: []byte(tdPkgFile("main", a))},
		"pkg/b.cue":          {Data: []byte(tdPkgFile("other", b))},
	}
}

func tdOutOf(u *tdUniverse, mf *modfile.File) ([]int, error) {
	out := make([]int, len(u.MV))
	for p, dep := range mf.Deps {
		var m int
		if _, err := fmt.Sscanf(p, "m%d.test@v0", &m); err != nil || m < 1 || m > len(out) {
			return nil, fmt.Errorf("unexpected dependency %q in tidied file", p)
		}
		v := 0
		for i := 1; i <= len(u.MV[m-1]); i++ {
			if tdVer(i) == dep.Version {
				v = i
			}
		}
		if v == 0 {
			return nil, fmt.Errorf("unexpected version %q for %q", dep.Version, p)
		}
		out[m-1] = v
	}
	return out, nil
}

type tdResult struct {
	U     *tdUniverse `json:"u"`
	OK    bool        `json:"ok"`
	Out   []int       `json:"out"`
	Out2  []int       `json:"out2"`
	Check bool        `json:"check"`
	Perm  [][]int     `json:"perm"`
	Err   string      `json:"err"`
}

func tdRunTidy(u *tdUniverse, deps []int, swap bool, rng *rand.Rand, delay time.Duration) ([]int, *modfile.File, error) {
	reg := &tdRegistry{u: u, rng: rng, delay: delay}
	type resT struct {
		res *modload.TidyResult
		err error
	}
	ch := make(chan resT, 1)
	go func() {
		defer func() {
			if p := recover(); p != nil {
				ch <- resT{nil, fmt.Errorf("PANIC: %v", p)}
			}
		}()
		res, err := modload.Tidy(context.Background(), tdMainFS(u, deps, swap), ".", reg, nil)
		ch <- resT{res, err}
	}()
	select {
	case r := <-ch:
		if r.err != nil {
			return nil, nil, r.err
		}
		out, err := tdOutOf(u, r.res.Module)
		return out, r.res.Module, err
	case <-time.After(30 * time.Second):
		return nil, nil, errors.New("HANG: Tidy did not reach a fixpoint within 30s")
	}
}

func tdEvaluate(u *tdUniverse, rng *rand.Rand) (res tdResult, fatal string) {
	res.U = u
	res.Out, res.Out2, res.Perm = []int{}, []int{}, [][]int{}
	out, mf, err := tdRunTidy(u, u.Main.Deps, false, rng, 0)
	if err != nil {
		res.Err = err.Error()
		if strings.HasPrefix(res.Err, "PANIC") || strings.HasPrefix(res.Err, "HANG") {
			fatal = res.Err
		}
		for i := 0; i < 2; i++ {
			p, _, err := tdRunTidy(u, u.Main.Deps, i == 0, rng, 300*time.Microsecond)
			if err != nil {
				p = []int{-1}
			}
			res.Perm = append(res.Perm, p)
		}
		return res, fatal
	}
	res.OK, res.Out = true, out
	// the written file must parse back to the same dependencies (module file round trip)
	data, err := modfile.Format(mf)
	if err != nil {
		return res, "cannot format tidied module file: " + err.Error()
	}
	back, err := modfile.Parse(data, "cue.mod/module.cue")
	if err != nil {
		return res, "tidied module file does not parse: " + err.Error()
	}
	if o, err := tdOutOf(u, back); err != nil || fmt.Sprint(o) != fmt.Sprint(out) {
		return res, fmt.Sprintf("tidied module file round trip changed dependencies: %v vs %v (%v)", o, out, err)
	}
	out2, _, err := tdRunTidy(u, out, false, rng, 0)
	if err != nil {
		res.Out2 = []int{-1}
		res.Err = "second tidy: " + err.Error()
	} else {
		res.Out2 = out2
	}
	mfs := tdMainFS(u, out, false)
	mfs["cue.mod/module.cue"] = &fstest.MapFile{Data: data}
	cerr := modload.CheckTidy(context.Background(), mfs, ".", &tdRegistry{u: u, rng: rng}, nil)
	res.Check = cerr == nil
	if cerr != nil {
		res.Err = "check: " + cerr.Error()
	}
	for i := 0; i < 2; i++ {
		p, _, err := tdRunTidy(u, u.Main.Deps, i == 0, rng, 300*time.Microsecond)
		if err != nil {
			p = []int{-1}
		}
		res.Perm = append(res.Perm, p)
	}
	return res, ""
}

func tdCfg(nm, nv int) string {
	return fmt.Sprintf(`SPECIFICATION TraceSpec
CONSTANTS NM = %d NV = %d Sample = 1
CONSTRAINT Progress2
POSTCONDITION AllAccepted
CHECK_DEADLOCK FALSE
`, nm, nv)
}

// ---- module file round trip ----

func c17ModFiles(r *kit.Run) {
	res, err := kit.RunTLC(kit.TLCOpts{Module: "ModFile", Cfg: "ModFile.cfg", Dump: true, Timeout: 10 * time.Minute})
	defer res.Cleanup()
	if err != nil || res.TimedOut || !res.OK() {
		r.Fatal("ModFile model: %v\n%s", err, res.Tail(30))
	}
	r.AddTLC("ModFile.cfg", res)
	paths := []string{"a.test@v0", "b.test/sub@v1", "c-d.test@v2"}
	vers := []string{"v0.1.0", "v1.2.3-rc.1", "v2.0.0"}
	var n, rejected int64
	_, err = kit.ForEachState(res.DumpPath, nil, 8, func(_ int, st tlaval.State) {
		rec := tlaval.AsRec(st["mf"])
		bad := tlaval.AsStr(st["bad"])
		modPath := tlaval.AsStr(rec["module"])
		lang := tlaval.AsStr(rec["lang"])
		deps := tlaval.IntSet(rec["deps"])
		dflt := map[int]bool{}
		for _, d := range tlaval.IntSet(rec["dflt"]) {
			dflt[d] = true
		}
		source := tlaval.AsStr(rec["source"])
		var b strings.Builder
		mp := modPath
		if bad == "bad-module-path" {
			mp = "Main..test@v0"
		}
		fmt.Fprintf(&b, "module: %q\n", mp)
		switch bad {
		case "missing-language":
		case "bad-language-version":
			b.WriteString("language: version: \"0.9\"\n")
		default:
			fmt.Fprintf(&b, "language: version: %q\n", lang)
		}
		if source != "" {
			fmt.Fprintf(&b, "source: kind: %q\n", source)
		}
		if bad == "unknown-top-field" {
			b.WriteString("surprise: 1\n")
		}
		needDep := map[string]bool{"unknown-dep-field": true, "dep-version-not-string": true, "non-canonical-version": true, "major-mismatch": true}
		if needDep[bad] && len(deps) == 0 {
			deps = []int{1}
		}
		if bad == "deps-not-struct" {
			b.WriteString("deps: [\"a.test@v0\"]\n")
		} else if len(deps) > 0 {
			b.WriteString("deps: {\n")
			for i, d := range deps {
				v := vers[d-1]
				extra := ""
				if i == 0 {
					switch bad {
					case "unknown-dep-field":
						extra = ", sneaky: true"
					case "non-canonical-version":
						v = strings.TrimSuffix(v, ".0") // v0.1 / v2.0 ; rc stays
						if v == vers[d-1] {
							v = "v1.2"
						}
					case "major-mismatch":
						v = "v7.0.0"
					}
				}
				if i == 0 && bad == "dep-version-not-string" {
					fmt.Fprintf(&b, "\t%q: v: 3\n", paths[d-1])
					continue
				}
				if dflt[d] {
					extra += ", default: true"
				}
				fmt.Fprintf(&b, "\t%q: {v: %q%s}\n", paths[d-1], v, extra)
			}
			b.WriteString("}\n")
		}
		text := b.String()
		atomic.AddInt64(&n, 1)
		f, err := modfile.Parse([]byte(text), "cue.mod/module.cue")
		if bad != "none" {
			if err == nil {
				r.Violation("modfile accepts "+bad+" :: "+text, "a malformed module file ("+bad+") is accepted instead of rejected", map[string]any{"text": text, "malformation": bad})
			} else {
				atomic.AddInt64(&rejected, 1)
			}
			return
		}
		if err != nil {
			r.Violation("modfile rejects :: "+text, "a well-formed module file is rejected: "+err.Error(), map[string]any{"text": text})
			return
		}
		abstract := func(f *modfile.File) string {
			var ds []string
			for p, d := range f.Deps {
				ds = append(ds, fmt.Sprintf("%s=%s/%v", p, d.Version, d.Default))
			}
			sort.Strings(ds)
			src := ""
			if f.Source != nil {
				src = f.Source.Kind
			}
			lv := ""
			if f.Language != nil {
				lv = f.Language.Version
			}
			return fmt.Sprintf("%s|%s|%s|%s", f.QualifiedModule(), lv, src, strings.Join(ds, ","))
		}
		var wantDeps []string
		for _, d := range deps {
			wantDeps = append(wantDeps, fmt.Sprintf("%s=%s/%v", paths[d-1], vers[d-1], dflt[d]))
		}
		sort.Strings(wantDeps)
		want := fmt.Sprintf("%s|%s|%s|%s", modPath, lang, source, strings.Join(wantDeps, ","))
		if got := abstract(f); got != want {
			r.Violation("modfile parse :: "+text, fmt.Sprintf("parsed module file %q differs from what was written %q", got, want), map[string]any{"text": text})
			return
		}
		out, err := modfile.Format(f)
		if err != nil {
			r.Violation("modfile format :: "+text, "cannot format a parsed module file: "+err.Error(), map[string]any{"text": text})
			return
		}
		g, err := modfile.Parse(out, "cue.mod/module.cue")
		if err != nil || abstract(g) != want {
			r.Violation("modfile roundtrip :: "+text, fmt.Sprintf("format then parse changed the module file: %v", err), map[string]any{"text": text, "formatted": string(out)})
		}
	})
	if err != nil {
		r.Fatal("ModFile dump: %v", err)
	}
	r.Add("module_files", int(n))
	r.Add("malformed_rejected", int(rejected))
}

func checkC17(r *kit.Run) {
	r.Assumptions = []string{
		"universes: NM registry modules x NV versions, one root package and an optional sub package per module version, imports only from root packages, every module at major version v0 (major-version suffixes / default major versions are not in this model), no replace directives",
		"registry listing is sorted (the interface requires it); order independence is exercised through file placement and random latency of registry calls",
		"when Tidy reports an error the result is accepted only if the spec finds no tidy solution or the latest-version strategy cannot resolve an import",
	}
	c17ModFiles(r)
	nm, nv := kit.Pick(r, 3, 4), kit.Pick(r, 2, 3)
	cfg := fmt.Sprintf("INIT Init\nNEXT Next\nCONSTANTS NM = %d NV = %d Sample = %d\nINVARIANTS AbstractIsTidy AbstractIdempotent\n", nm, nv, kit.Pick(r, 14, 120))
	res, err := kit.RunTLC(kit.TLCOpts{Module: "Tidy", CfgText: cfg, Dump: true, Seed: r.Seed + 31, Timeout: 40 * time.Minute, Heap: "16g"})
	defer res.Cleanup()
	if err != nil || res.TimedOut || !res.OK() {
		r.Fatal("Tidy model failed (design level): %v %s\n%s", err, res.Violation, res.Tail(40))
	}
	r.AddTLC("Tidy generation", res)
	var us []*tdUniverse
	var mu sync.Mutex
	_, err = kit.ForEachState(res.DumpPath, []string{"u"}, 8, func(_ int, st tlaval.State) {
		b, _ := json.Marshal(tlaJSON(st["u"]))
		var u tdUniverse
		if err := json.Unmarshal(b, &u); err != nil {
			panic(err)
		}
		mu.Lock()
		us = append(us, &u)
		mu.Unlock()
	})
	if err != nil {
		r.Fatal("Tidy dump: %v", err)
	}
	sort.Slice(us, func(i, j int) bool {
		a, _ := json.Marshal(us[i])
		b, _ := json.Marshal(us[j])
		return string(a) < string(b)
	})
	results := make([]tdResult, len(us))
	kit.ParallelN(len(us), 16, func(w, i int) {
		rng := rand.New(rand.NewSource(r.Seed*131 + int64(i)))
		res, fatal := tdEvaluate(us[i], rng)
		results[i] = res
		if fatal != "" {
			ub, _ := json.Marshal(us[i])
			r.Violation("tidy "+string(ub), fatal, map[string]any{"universe": us[i]})
		}
	})
	lines := make([][]byte, len(results))
	okCount := 0
	for i, x := range results {
		lines[i], _ = json.Marshal(x)
		if x.OK {
			okCount++
		}
	}
	rej, _ := kit.ValidateTraces(r, "TidyCheck", tdCfg(nm, nv), lines, "tidy results", 8)
	for _, i := range rej {
		x := results[i]
		ub, _ := json.Marshal(x.U)
		r.Violation("tidy "+string(ub), fmt.Sprintf("result of cue mod tidy violates the Tidy.tla predicates (ok=%v out=%v again=%v check=%v permuted=%v err=%s)", x.OK, x.Out, x.Out2, x.Check, x.Perm, x.Err),
			map[string]any{"result": x})
	}
	if len(results) > 0 {
		r.Sample(results[len(results)/2])
	}
	// canary
	caught := 0
	for _, x := range results {
		if x.OK && len(x.Out) > 0 {
			bad := x
			bad.Out = append([]int(nil), x.Out...)
			bad.Out[0] = (bad.Out[0] + 1) % (nv + 1)
			bad.Out2 = bad.Out
			bad.Perm = [][]int{bad.Out}
			b, _ := json.Marshal(bad)
			rj, _ := kit.ValidateTraces(r, "TidyCheck", tdCfg(nm, nv), [][]byte{b}, "canary", 1)
			if len(rj) == 1 {
				caught++
			}
			break
		}
	}
	if caught != 1 {
		r.Fatal("canary: a corrupted tidy result was not rejected")
	}
	r.Set("traces_validated_against_impl", len(results))
	r.Set("tidy_succeeded", okCount)
	r.Set("evaluations", len(results)+r.Get("module_files"))
	r.Set("distinct_nontrivial", okCount)
	r.Set("canaries_rejected", caught)
	r.Set("rule", "universes are TLC-generated (RandomSubset, seeded) initial states of Tidy.tla; each is materialised as in-memory registry + main module, the real Tidy is run (then again on its output, CheckTidy, and with permuted files/latency) and TLC evaluates TidyOK / NotLower / idempotence / order independence on the recorded results; module files: every ModFile.tla state formatted+parsed (round trip) or, for malformed variants, required to be rejected; non-trivial = universes where tidy succeeds")
}

func init() {
	workers["tidydebug"] = func(args []string) {
		var u tdUniverse
		if err := json.Unmarshal([]byte(args[0]), &u); err != nil {
			panic(err)
		}
		rng := rand.New(rand.NewSource(1))
		res, fatal := tdEvaluate(&u, rng)
		b, _ := json.Marshal(res)
		fmt.Println(string(b), fatal)
		if tr, err := modload.Tidy(context.Background(), tdMainFS(&u, u.Main.Deps, false), ".", &tdRegistry{u: &u, rng: rng}, nil); err == nil {
			data, _ := modfile.Format(tr.Module)
			fmt.Printf("=== tidied module.cue\n%s=== main files\n", data)
			for n, f := range tdMainFS(&u, u.Main.Deps, false) {
				fmt.Printf("--- %s\n%s", n, f.Data)
			}
		}
		for m := range u.MV {
			for v := range u.MV[m] {
				reg := &tdRegistry{u: &u, rng: rng}
				fmt.Printf("--- m%d v%d\n%s%s", m+1, v+1, reg.files(m+1, v+1)["cue.mod/module.cue"].Data, reg.files(m+1, v+1)["top.cue"].Data)
			}
		}
	}
}

package main

import (
	"fmt"
	"strings"
	"sync/atomic"
	"time"

	"cuelang.org/go/cue"
	"cuelang.org/go/cue/cuecontext"
	"cuelang.org/go/verifharness/kit"
	"cuelang.org/go/verifharness/tlaval"
)

func init() { register("C05", "model_checking", checkC05) }

// c05Tables reads the schema and data alphabets (their CUE text) from a
// Tables run of CueStruct.tla.
func c05Tables(r *kit.Run) (schemas, data []string) {
	cfg := "INIT TablesInit\nNEXT TablesNext\nCONSTANTS MaxSchemas = 0\n"
	res, err := kit.RunTLC(kit.TLCOpts{Module: "CueStruct", CfgText: cfg, Dump: true, Workers: 1, Timeout: 5 * time.Minute})
	defer res.Cleanup()
	if err != nil || !res.OK() {
		r.Fatal("CueStruct tables: %v\n%s", err, res.Tail(30))
	}
	kit.ForEachState(res.DumpPath, nil, 1, func(_ int, st tlaval.State) {
		rec := tlaval.AsRec(st["ss"])
		for _, x := range tlaval.AsSeq(rec["schemas"]) {
			schemas = append(schemas, tlaval.AsStr(x))
		}
		for _, x := range tlaval.AsSeq(rec["data"]) {
			data = append(data, tlaval.AsStr(x))
		}
	})
	if len(schemas) == 0 || len(data) == 0 {
		r.Fatal("CueStruct tables empty")
	}
	return
}

// c05Render turns the schema alphabet texts at the given positions into
// definitions + one expression per schema.
func c05Render(texts []string) (defs []string, exprs []string) {
	for k, t := range texts {
		ren := func(s string) string {
			s = strings.ReplaceAll(s, "#D", fmt.Sprintf("#D%d", k))
			s = strings.ReplaceAll(s, "#E", fmt.Sprintf("#E%d", k))
			return s
		}
		parts := strings.Split(t, ";")
		for i := range parts {
			parts[i] = strings.TrimSpace(parts[i])
		}
		last := parts[len(parts)-1]
		if strings.HasPrefix(last, "#D:") || strings.HasPrefix(last, "#E:") {
			for _, p := range parts {
				defs = append(defs, ren(p))
			}
			exprs = append(exprs, ren("#D"))
		} else {
			for _, p := range parts[:len(parts)-1] {
				defs = append(defs, ren(p))
			}
			exprs = append(exprs, ren(last))
		}
	}
	return
}

func checkC05(r *kit.Run) {
	r.Assumptions = []string{
		"schemas are the 24-entry alphabet of CueStruct.tla (regular/optional/required fields, two patterns, ellipsis, close(), definitions, embeddings of definitions and of close(), a nested struct under a definition / close() / open), conjoined up to 2 (quick) / 3 (thorough) at a time with 14 data structs over the labels a ab b c _h #x",
		"the verdict compared is Validate(Concrete(true)) == nil of s1 & ... & sn & data, in two textual orders",
	}
	schemas, data := c05Tables(r)
	cfg := kit.Pick(r, "CueStruct_quick.cfg", "CueStruct_thorough.cfg")
	res, err := kit.RunTLC(kit.TLCOpts{Module: "CueStruct", Cfg: cfg, Dump: true, Timeout: 30 * time.Minute, Heap: "16g"})
	defer res.Cleanup()
	if err != nil || res.TimedOut || !res.OK() {
		r.Fatal("CueStruct model failed (design level): %v %s\n%s", err, res.Violation, res.Tail(40))
	}
	r.AddTLC(cfg, res)
	ctxs := make([]*cue.Context, 16)
	counts := make([]int, 16)
	var checked, admitted, rejected, canary, caught int64
	n, err := kit.ForEachState(res.DumpPath, nil, 16, func(w int, st tlaval.State) {
		dat := tlaval.AsInt(st["dat"])
		if dat == 0 {
			return
		}
		if ctxs[w] == nil || counts[w]%300 == 0 {
			ctxs[w] = cuecontext.New()
		}
		counts[w]++
		ss := tlaval.IntSeq(st["ss"])
		want := tlaval.AsBool(st["ok"])
		var texts []string
		for _, s := range ss {
			texts = append(texts, schemas[s-1])
		}
		defs, exprs := c05Render(texts)
		d := data[dat-1]
		fwd := strings.Join(append(append([]string{}, exprs...), d), " & ")
		var rev []string
		rev = append(rev, d)
		for i := len(exprs) - 1; i >= 0; i-- {
			rev = append(rev, exprs[i])
		}
		src := strings.Join(defs, "\n") + "\nx: " + fwd + "\ny: " + strings.Join(rev, " & ") + "\n"
		v := ctxs[w].CompileString(src)
		key := strings.Join(texts, " & ") + " & " + d
		for _, f := range []string{"x", "y"} {
			fv := v.LookupPath(cue.ParsePath(f))
			if !fv.Exists() {
				r.Violation("compile "+key, fmt.Sprintf("does not compile: %v", v.Err()), map[string]any{"source": src})
				return
			}
			got := fv.Validate(cue.Concrete(true)) == nil
			if got != want && got && d == "{a: {b: 1, c: 1}}" && strings.Contains(key, "#D: close({a?: {b: int}}) & ") && !strings.Contains(key, "#D: {a?: {b: int}}") {
				r.Violation("class definition-of-close-referenced-directly", fmt.Sprintf("%s [%s]: accepted although the definition closes the nested struct", key, f), map[string]any{"source": src})
				continue
			}
			if got != want {
				r.Violation(key+" ["+f+"]", fmt.Sprintf("unification valid=%v, the closedness/constraint rules say %v (%v)", got, want, fv.Validate(cue.Concrete(true))), map[string]any{"source": src, "field": f, "spec_admits": want})
			}
			if counts[w]%500 == 1 && f == "x" {
				atomic.AddInt64(&canary, 1)
				if got != !want {
					atomic.AddInt64(&caught, 1)
				}
			}
		}
		atomic.AddInt64(&checked, 2)
		if want {
			atomic.AddInt64(&admitted, 1)
		} else {
			atomic.AddInt64(&rejected, 1)
		}
		if counts[w]%3000 == 1 {
			r.Sample(map[string]any{"source": src, "spec_admits": want})
		}
	})
	if err != nil {
		r.Fatal("CueStruct dump: %v", err)
	}
	if (canary == 0 && r.Violations() == 0) || caught != canary {
		r.Fatal("canary: %d of %d flipped verdicts noticed", caught, canary)
	}
	r.Set("traces_validated_against_impl", n)
	r.Set("evaluations", int(checked))
	r.Set("spec_admits", int(admitted))
	r.Set("spec_rejects", int(rejected))
	r.Set("distinct_nontrivial", int(admitted))
	r.Set("canaries_rejected", int(caught))
	r.Set("exhaustive", true)
	r.Set("rule", fmt.Sprintf("every multiset of <= %d schema conjuncts x every data struct (TLC terminal states of CueStruct.tla, verdict = Admits); rendered with fresh definition names, unified in two textual orders; verdict = Validate(Concrete(true)) == nil; non-trivial = combinations the spec admits", kit.Pick(r, 2, 3)))
}

// Package mcw is the module-cache worker: it runs mod/modcache operations
// in a child process with verifhook tracing, crash and fault injection.
package mcw

import (
	"archive/zip"
	"bytes"
	"context"
	"encoding/json"
	"errors"
	"flag"
	"fmt"
	"io"
	"io/fs"
	"math/rand"
	"os"
	"path/filepath"
	"runtime"
	"sort"
	"strconv"
	"strings"
	"sync"
	"sync/atomic"
	"syscall"
	"testing/fstest"
	"time"

	"cuelabs.dev/go/oci/ociregistry"
	"cuelabs.dev/go/oci/ociregistry/ocimem"

	"cuelang.org/go/internal/verifhook"
	"cuelang.org/go/mod/modcache"
	"cuelang.org/go/mod/modregistry"
	"cuelang.org/go/mod/modregistrytest"
	"cuelang.org/go/mod/module"
)

const ModPath = "example.com/m"

// VerStr names version v. Each version string extends the previous one with a dot and a
// number (v0.1.0-alpha, v0.1.0-alpha.1, v0.1.0-alpha.1.1, ...): valid, distinct versions whose
// cache file names share prefixes, so that nothing keyed by a version may work on prefixes.
func VerStr(v int) string {
	s := "v0.1.0-alpha"
	for i := 1; i < v; i++ {
		s += ".1"
	}
	return s
}

func Version(v int) module.Version {
	return module.MustNewVersion(ModPath+"@v0", VerStr(v))
}

// Content is the deterministic registry content: version -> file -> bytes.
func Content(nv, nf int) map[int]map[string][]byte {
	out := map[int]map[string][]byte{}
	for v := 1; v <= nv; v++ {
		files := map[string][]byte{
			"cue.mod/module.cue": []byte(fmt.Sprintf("module: %q\nlanguage: version: \"v0.9.0\"\n// version %d\n", ModPath+"@v0", v)),
		}
		for i := 1; i < nf; i++ {
			name := fmt.Sprintf("f%d.cue", i)
			body := fmt.Sprintf("package m\nx%d: %d\n// %s\n", i, v*100+i, strings.Repeat(fmt.Sprintf("filler-%d-%d ", v, i), 200*i))
			files[name] = []byte(body)
		}
		out[v] = files
	}
	return out
}

// Registry builds the in-memory registry and returns it with the zip
// bytes and zip file order of every version.
func Registry(nv, nf int) (ociregistry.Interface, map[int][]byte, map[int][]string, error) {
	content := Content(nv, nf)
	mfs := fstest.MapFS{}
	for v, files := range content {
		for name, data := range files {
			mfs[fmt.Sprintf("example.com_m_%s/%s", VerStr(v), name)] = &fstest.MapFile{Data: data, Mode: 0o644}
		}
	}
	reg := ocimem.New()
	if err := modregistrytest.Upload(context.Background(), reg, mfs); err != nil {
		return nil, nil, nil, err
	}
	zips := map[int][]byte{}
	order := map[int][]string{}
	cl := modregistry.NewClient(reg)
	for v := 1; v <= nv; v++ {
		m, err := cl.GetModule(context.Background(), Version(v))
		if err != nil {
			return nil, nil, nil, err
		}
		rc, err := m.GetZip(context.Background())
		if err != nil {
			return nil, nil, nil, err
		}
		b, err := io.ReadAll(rc)
		rc.Close()
		if err != nil {
			return nil, nil, nil, err
		}
		zips[v] = b
		zr, err := zip.NewReader(bytes.NewReader(b), int64(len(b)))
		if err != nil {
			return nil, nil, nil, err
		}
		for _, f := range zr.File {
			if !strings.HasSuffix(f.Name, "/") {
				order[v] = append(order[v], f.Name)
			}
		}
	}
	return reg, zips, order, nil
}

// Event is one trace line; every field is always present so the trace
// spec can read any of them.
type Event struct {
	P  int    `json:"p"`
	G  int    `json:"g"`
	Ev string `json:"ev"`
	B  bool   `json:"b"`
	F  int    `json:"f"`
	V  int    `json:"v"`
	OK bool   `json:"ok"`
}

func goid() int64 {
	var buf [64]byte
	n := runtime.Stack(buf[:], false)
	s := strings.TrimPrefix(string(buf[:n]), "goroutine ")
	i := strings.IndexByte(s, ' ')
	id, _ := strconv.ParseInt(s[:i], 10, 64)
	return id
}

type Op struct {
	Op string `json:"op"` // fetch | modfile
	V  int    `json:"v"`
}

type Fault struct {
	Kind string `json:"kind"` // zip | mod
	N    int    `json:"n"`    // n-th GetBlob of that kind in this process
	Mode string `json:"mode"` // err (before body) | mid (error mid-body) | short (body cut, clean EOF)
}

type mcWorkerState struct {
	proc     int
	traceDir string
	crashAt  int64
	count    atomic.Int64
	mu       sync.Mutex
	slots    map[int64]int // goid -> slot
	files    map[int]*os.File
	curV     map[int]int // slot -> version of the current op
	order    map[int][]string
	delay    *rand.Rand
	maxDelay time.Duration
}

func (w *mcWorkerState) slot() int {
	w.mu.Lock()
	defer w.mu.Unlock()
	return w.slots[goid()]
}

func (w *mcWorkerState) emit(g int, e Event) {
	e.P, e.G = w.proc, g
	b, _ := json.Marshal(e)
	w.mu.Lock()
	f := w.files[g]
	w.mu.Unlock()
	if f != nil {
		f.Write(append(b, '\n')) // O_APPEND, unbuffered: survives SIGKILL
	}
	if n := w.count.Add(1); w.crashAt > 0 && n == w.crashAt {
		syscall.Kill(os.Getpid(), syscall.SIGKILL)
		select {}
	}
	if w.maxDelay > 0 {
		w.mu.Lock()
		d := time.Duration(w.delay.Int63n(int64(w.maxDelay)))
		skip := w.delay.Intn(3) == 0
		w.mu.Unlock()
		if !skip {
			time.Sleep(d)
		}
	}
}

func (w *mcWorkerState) hook(point string, args ...any) {
	g := w.slot()
	if g == 0 {
		return // not one of our goroutines
	}
	e := Event{Ev: point}
	if len(args) > 0 {
		switch a := args[0].(type) {
		case bool:
			e.B = a
		case string:
			w.mu.Lock()
			v := w.curV[g]
			w.mu.Unlock()
			for i, n := range w.order[v] {
				if n == a {
					e.F = i + 1
				}
			}
		}
	}
	w.emit(g, e)
}

// faultyRegistry wraps the registry: it reports Z_Get / M_Get / Z_Chunk
// events (the registry side of the protocol) and injects faults.
type faultyRegistry struct {
	ociregistry.Interface
	w      *mcWorkerState
	faults []Fault
	nzip   atomic.Int64
	nmod   atomic.Int64
}

type chunkReader struct {
	w      *mcWorkerState
	g      int
	data   []byte
	pos    int
	chunk  int
	cutAt  int // fault position (-1 none)
	mode   string
	closed bool
}

func (r *chunkReader) Read(p []byte) (int, error) {
	if r.pos > 0 && r.pos < len(r.data) {
		// the previous chunk has been written to the temp file by io.Copy
		r.w.emit(r.g, Event{Ev: "Z_Chunk"})
	}
	if r.cutAt >= 0 && r.pos >= r.cutAt {
		if r.mode == "short" {
			// a body shorter than announced: the registry client's digest
			// check turns this into an error at EOF.
			return 0, errors.New("verif: short body (digest mismatch)")
		}
		return 0, errors.New("verif: injected mid-body failure")
	}
	if r.pos >= len(r.data) {
		return 0, io.EOF
	}
	n := r.chunk
	if r.pos+n > len(r.data) {
		n = len(r.data) - r.pos
	}
	if r.cutAt >= 0 && r.pos+n > r.cutAt {
		n = r.cutAt - r.pos
	}
	if n > len(p) {
		n = len(p)
	}
	copy(p, r.data[r.pos:r.pos+n])
	r.pos += n
	return n, nil
}

type blobReader struct {
	io.Reader
	desc ociregistry.Descriptor
}

func (b blobReader) Close() error                       { return nil }
func (b blobReader) Descriptor() ociregistry.Descriptor { return b.desc }

func (fr *faultyRegistry) GetBlob(ctx context.Context, repo string, digest ociregistry.Digest) (ociregistry.BlobReader, error) {
	inner, err := fr.Interface.GetBlob(ctx, repo, digest)
	if err != nil {
		return nil, err
	}
	data, err := io.ReadAll(inner)
	desc := inner.Descriptor()
	inner.Close()
	if err != nil {
		return nil, err
	}
	g := fr.w.slot()
	if g == 0 {
		return blobReader{bytes.NewReader(data), desc}, nil
	}
	isZip := bytes.HasPrefix(data, []byte("PK"))
	kind, n := "mod", fr.nmod.Add(1)
	if isZip {
		kind, n = "zip", fr.nzip.Add(1)
	}
	var fault *Fault
	for i := range fr.faults {
		if fr.faults[i].Kind == kind && int64(fr.faults[i].N) == n {
			fault = &fr.faults[i]
		}
	}
	if isZip {
		fr.w.emit(g, Event{Ev: "Z_Get"})
	} else {
		fr.w.emit(g, Event{Ev: "M_Get"})
	}
	if fault != nil && (fault.Mode == "err" || !isZip) {
		return nil, errors.New("verif: injected registry failure")
	}
	if !isZip {
		return blobReader{bytes.NewReader(data), desc}, nil
	}
	cr := &chunkReader{w: fr.w, g: g, data: data, chunk: len(data)/3 + 1, cutAt: -1}
	if fault != nil {
		cr.cutAt = len(data) / 2
		cr.mode = fault.Mode
	}
	return blobReader{cr, desc}, nil
}

// dirComplete reports whether the directory returned by Fetch holds
// exactly the registry's files with the registry's content.
func dirComplete(loc module.SourceLoc, want map[string][]byte) bool {
	got := map[string][]byte{}
	err := fs.WalkDir(loc.FS, loc.Dir, func(p string, d fs.DirEntry, err error) error {
		if err != nil {
			return err
		}
		if d.IsDir() {
			return nil
		}
		b, err := fs.ReadFile(loc.FS, p)
		if err != nil {
			return err
		}
		got[p] = b
		return nil
	})
	if err != nil || len(got) != len(want) {
		return false
	}
	for n, b := range want {
		if !bytes.Equal(got[n], b) {
			return false
		}
	}
	return true
}

func Main(args []string) {
	fl := flag.NewFlagSet("modcache", flag.ExitOnError)
	cacheDir := fl.String("cache", "", "cache dir")
	proc := fl.Int("proc", 1, "process index")
	traceDir := fl.String("trace", "", "trace dir")
	opsJSON := fl.String("ops", "", "per-slot op lists (JSON [[{op,v}...]...])")
	crashAt := fl.Int64("crash-at", 0, "SIGKILL self after the n-th event")
	faultsJSON := fl.String("faults", "[]", "registry faults")
	nv := fl.Int("nv", 1, "versions")
	nf := fl.Int("nf", 3, "files per module")
	maxDelay := fl.Duration("max-delay", 0, "random delay after each event")
	seed := fl.Int64("seed", 1, "seed for delays")
	fl.Parse(args)

	var ops [][]Op
	if err := json.Unmarshal([]byte(*opsJSON), &ops); err != nil {
		fmt.Fprintln(os.Stderr, "bad ops:", err)
		os.Exit(3)
	}
	var faults []Fault
	if err := json.Unmarshal([]byte(*faultsJSON), &faults); err != nil {
		fmt.Fprintln(os.Stderr, "bad faults:", err)
		os.Exit(3)
	}
	reg, _, order, err := Registry(*nv, *nf)
	if err != nil {
		fmt.Fprintln(os.Stderr, "registry:", err)
		os.Exit(3)
	}
	content := Content(*nv, *nf)
	w := &mcWorkerState{proc: *proc, traceDir: *traceDir, crashAt: *crashAt, slots: map[int64]int{}, files: map[int]*os.File{},
		curV: map[int]int{}, order: order, delay: rand.New(rand.NewSource(*seed)), maxDelay: *maxDelay}
	for g := 1; g <= len(ops); g++ {
		f, err := os.OpenFile(filepath.Join(*traceDir, fmt.Sprintf("p%d_g%d.ndjson", *proc, g)), os.O_WRONLY|os.O_CREATE|os.O_APPEND, 0o644)
		if err != nil {
			fmt.Fprintln(os.Stderr, "trace:", err)
			os.Exit(3)
		}
		w.files[g] = f
	}
	verifhook.Set(w.hook)
	if !verifhook.Enabled {
		fmt.Fprintln(os.Stderr, "harness built without -tags verif")
		os.Exit(3)
	}
	fr := &faultyRegistry{Interface: reg, w: w, faults: faults}
	cache, err := modcache.New(modregistry.NewClient(fr), *cacheDir)
	if err != nil {
		fmt.Fprintln(os.Stderr, "cache:", err)
		os.Exit(3)
	}
	ctx := context.Background()
	var wg sync.WaitGroup
	for g := 1; g <= len(ops); g++ {
		wg.Add(1)
		go func(g int) {
			defer wg.Done()
			w.mu.Lock()
			w.slots[goid()] = g
			w.mu.Unlock()
			for _, op := range ops[g-1] {
				w.mu.Lock()
				w.curV[g] = op.V
				w.mu.Unlock()
				switch op.Op {
				case "fetch":
					w.emit(g, Event{Ev: "StartFetch", V: op.V})
					loc, err := cache.Fetch(ctx, Version(op.V))
					ok := err == nil
					complete := false
					if ok {
						complete = dirComplete(loc, content[op.V])
						if loc2, err2 := cache.FetchFromCache(Version(op.V)); err2 != nil || !dirComplete(loc2, content[op.V]) {
							complete = false
						}
					}
					w.emit(g, Event{Ev: "F_Return", OK: ok, B: complete, V: op.V})
				case "modfile":
					w.emit(g, Event{Ev: "StartModFile", V: op.V})
					mf, err := cache.ModFile(ctx, Version(op.V))
					ok := err == nil
					good := ok && mf != nil && mf.QualifiedModule() == ModPath+"@v0"
					w.emit(g, Event{Ev: "M_Return", OK: ok, B: good, V: op.V})
				}
			}
		}(g)
	}
	wg.Wait()
}

// DiskProjection maps a cache directory to the spec's disk record,
// per version.
func DiskProjection(cacheDir string, nv, nf int, zips map[int][]byte, order map[int][]string) []map[string]any {
	content := Content(nv, nf)
	var out []map[string]any
	dl := filepath.Join(cacheDir, "mod", "download", "example.com", "m", "@v")
	ents, _ := os.ReadDir(dl)
	for v := 1; v <= nv; v++ {
		ver := VerStr(v)
		// a file belongs to the version with the longest matching name
		owned := func(n string) bool {
			if !strings.HasPrefix(n, ver+".") {
				return false
			}
			for w := 1; w <= nv; w++ {
				if o := VerStr(w); len(o) > len(ver) && strings.HasPrefix(n, o+".") {
					return false
				}
			}
			return true
		}
		rec := map[string]any{"zip": "absent", "mod": "absent", "partial": false, "dirx": false, "zstale": false, "mstale": false, "junk": false}
		classify := func(path string, want []byte) string {
			b, err := os.ReadFile(path)
			if err != nil {
				if os.IsNotExist(err) {
					return "absent"
				}
				return "partial"
			}
			if bytes.Equal(b, want) {
				return "complete"
			}
			return "partial"
		}
		rec["zip"] = classify(filepath.Join(dl, ver+".zip"), zips[v])
		rec["mod"] = classify(filepath.Join(dl, ver+".mod"), content[v]["cue.mod/module.cue"])
		if _, err := os.Stat(filepath.Join(dl, ver+".partial")); err == nil {
			rec["partial"] = true
		}
		for _, e := range ents {
			n := e.Name()
			if !owned(n) {
				continue
			}
			switch {
			case strings.HasPrefix(n, ver+".zip") && strings.HasSuffix(n, ".tmp"):
				rec["zstale"] = true
			case strings.HasPrefix(n, ver+".mod") && strings.HasSuffix(n, ".tmp"):
				rec["mstale"] = true
			case strings.HasPrefix(n, ver+"."):
				switch strings.TrimPrefix(n, ver+".") {
				case "zip", "mod", "partial", "lock":
				default:
					rec["junk"] = true
				}
			}
		}
		dir := filepath.Join(cacheDir, "mod", "extract", "example.com", "m@"+ver)
		files := make([]string, len(order[v]))
		for i := range files {
			files[i] = "missing"
		}
		if fi, err := os.Stat(dir); err == nil && fi.IsDir() {
			rec["dirx"] = true
			seen := map[string]bool{}
			filepath.WalkDir(dir, func(p string, d fs.DirEntry, err error) error {
				if err != nil || d.IsDir() {
					return nil
				}
				rel, _ := filepath.Rel(dir, p)
				seen[filepath.ToSlash(rel)] = true
				return nil
			})
			for i, name := range order[v] {
				b, err := os.ReadFile(filepath.Join(dir, filepath.FromSlash(name)))
				switch {
				case err != nil:
				case bytes.Equal(b, content[v][name]):
					files[i] = "full"
				default:
					files[i] = "partial"
				}
				delete(seen, name)
			}
			if len(seen) > 0 {
				rec["junk"] = true
			}
		}
		rec["files"] = files
		out = append(out, rec)
	}
	// anything else under extract/ that is not one of our directories
	ex, _ := os.ReadDir(filepath.Join(cacheDir, "mod", "extract", "example.com"))
	known := map[string]bool{}
	for v := 1; v <= nv; v++ {
		known["m@"+VerStr(v)] = true
	}
	for _, e := range ex {
		if !known[e.Name()] && len(out) > 0 {
			out[0]["junk"] = true
		}
	}
	sort.SliceStable(out, func(i, j int) bool { return false })
	return out
}

package main

import (
	"bufio"
	"bytes"
	"context"
	"encoding/json"
	"fmt"
	"hash/fnv"
	"io"
	"os"
	"os/exec"
	"path/filepath"
	"regexp"
	"runtime"
	"runtime/debug"
	"sort"
	"strings"
	"sync"
	"time"

	"cuelang.org/go/cue"
	"cuelang.org/go/cue/ast"
	"cuelang.org/go/cue/cuecontext"
	"cuelang.org/go/cue/errors"
	"cuelang.org/go/cue/format"
	"cuelang.org/go/cue/parser"
	"cuelang.org/go/encoding/yaml"
	"cuelang.org/go/verifharness/kit"
	"cuelang.org/go/verifharness/tlaval"
)

func init() {
	register("C02", "exploration", checkC02)
	workers["pipeline"] = pipelineWorker
}

// one event of a pipeline trace (PipelineTrace.tla)
type plEvent struct {
	R  int    `json:"r"`
	St string `json:"st"`
	Oc string `json:"oc"`
	H  int    `json:"h"`
	// not part of the trace: what was produced, for the replay file
	Out string `json:"-"`
}

type plProg struct {
	ID  int    `json:"id"`
	Src string `json:"src"`
}

type plResult struct {
	ID     int       `json:"id"`
	Start  bool      `json:"start,omitempty"`
	Ev     []plEvent `json:"ev,omitempty"`
	Outs   []string  `json:"outs,omitempty"`
	Abort  string    `json:"abort,omitempty"` // "timeout" | "memory"
	Detail string    `json:"detail,omitempty"`
}

func plDigest(s string) int {
	h := fnv.New32a()
	h.Write([]byte(s))
	return int(h.Sum32() & 0x3fffffff)
}

// runPipeline takes one program text through the stages of Pipeline.tla.
func runPipeline(ctx *cue.Context, run int, src string) (evs []plEvent) {
	add := func(st string, err error, out string) {
		e := plEvent{R: run, St: st, Oc: "ok", Out: out}
		if err != nil {
			var b strings.Builder
			errors.Print(&b, err, nil)
			e.Oc, e.Out = "err", b.String()
		}
		e.H = plDigest(e.Oc + "\x00" + e.Out)
		evs = append(evs, e)
	}
	guard := func(st string, f func() (string, error)) {
		defer func() {
			if p := recover(); p != nil {
				evs = append(evs, plEvent{R: run, St: st, Oc: "panic", Out: fmt.Sprintf("%v\n%s", p, firstLines(string(debug.Stack()), 30))})
			}
		}()
		out, err := f()
		add(st, err, out)
	}
	var v cue.Value
	var f *ast.File
	guard("parse", func() (string, error) {
		var err error
		f, err = parser.ParseFile("in.cue", src, parser.ParseComments)
		return "", err
	})
	if f == nil || evs[len(evs)-1].Oc != "ok" {
		return evs
	}
	guard("compile", func() (string, error) {
		v = ctx.BuildFile(f)
		return "", v.Err()
	})
	guard("validate", func() (string, error) { return "", v.Validate() })
	guard("concrete", func() (string, error) { return "", v.Validate(cue.Concrete(true)) })
	guard("cue", func() (string, error) {
		n := v.Syntax(cue.Docs(true), cue.Attributes(true), cue.Optional(true), cue.Definitions(true))
		b, err := format.Node(n)
		return string(b), err
	})
	guard("json", func() (string, error) {
		b, err := v.MarshalJSON()
		return string(b), err
	})
	guard("yaml", func() (string, error) {
		b, err := yaml.Encode(v)
		return string(b), err
	})
	return evs
}

// pipelineWorker: `vh worker pipeline <runs> <timeoutMs> <memMB>`; programs
// as JSON lines on stdin, one result line per program on stdout. runs is
// "12" (run 1 in a context shared by the whole batch, run 2 in a fresh
// one) or "3" (another process: fresh context per program).
func pipelineWorker(args []string) {
	runs, timeoutMs, memMB := args[0], 10000, 2048
	fmt.Sscan(args[1], &timeoutMs)
	fmt.Sscan(args[2], &memMB)
	debug.SetMaxStack(512 << 20)
	out := bufio.NewWriter(os.Stdout)
	var mu sync.Mutex
	emit := func(r plResult) {
		mu.Lock()
		b, _ := json.Marshal(r)
		out.Write(b)
		out.WriteByte('\n')
		out.Flush()
		mu.Unlock()
	}
	var cur struct {
		sync.Mutex
		id    int
		since time.Time
	}
	// ceilings: time per program, heap of the process
	go func() {
		var ms runtime.MemStats
		for {
			time.Sleep(50 * time.Millisecond)
			cur.Lock()
			id, since := cur.id, cur.since
			cur.Unlock()
			if id != 0 && time.Since(since) > time.Duration(timeoutMs)*time.Millisecond {
				emit(plResult{ID: id, Abort: "timeout", Detail: fmt.Sprintf("no result after %d ms", timeoutMs)})
				os.Exit(3)
			}
			runtime.ReadMemStats(&ms)
			if ms.HeapAlloc > uint64(memMB)<<20 {
				emit(plResult{ID: id, Abort: "memory", Detail: fmt.Sprintf("heap %d MB", ms.HeapAlloc>>20)})
				os.Exit(4)
			}
		}
	}()
	shared := cuecontext.New()
	sc := bufio.NewScanner(os.Stdin)
	sc.Buffer(make([]byte, 1<<20), 1<<24)
	n := 0
	for sc.Scan() {
		var p plProg
		if json.Unmarshal(sc.Bytes(), &p) != nil {
			continue
		}
		emit(plResult{ID: p.ID, Start: true})
		cur.Lock()
		cur.id, cur.since = p.ID, time.Now()
		cur.Unlock()
		var evs []plEvent
		if runs == "12" {
			n++
			if n%300 == 0 {
				shared = cuecontext.New() // bound the growth of the shared context
			}
			evs = append(evs, runPipeline(shared, 1, p.Src)...)
			// run 2 is repeated, first sequentially, then four at a time on separate goroutines (each
			// with its own fresh context); a repeat that differs from the first one is the one reported
			r2 := runPipeline(cuecontext.New(), 2, p.Src)
			differs := func(again []plEvent) bool { return fmt.Sprint(plKey(again)) != fmt.Sprint(plKey(r2)) }
			var other []plEvent
			for k := 0; k < 2 && other == nil; k++ {
				if again := runPipeline(cuecontext.New(), 2, p.Src); differs(again) {
					other = again
				}
			}
			if other == nil {
				res := make([][]plEvent, 4)
				var wg sync.WaitGroup
				for g := range res {
					wg.Add(1)
					go func() {
						defer wg.Done()
						res[g] = runPipeline(cuecontext.New(), 2, p.Src)
					}()
				}
				wg.Wait()
				for _, again := range res {
					if differs(again) {
						other = again
						break
					}
				}
			}
			if other != nil && fmt.Sprint(plKey(r2)) == fmt.Sprint(plKey(evs)) {
				r2 = other
			}
			evs = append(evs, r2...)
		} else {
			evs = append(evs, runPipeline(cuecontext.New(), 3, p.Src)...)
		}
		cur.Lock()
		cur.id = 0
		cur.Unlock()
		res := plResult{ID: p.ID, Ev: evs}
		for _, e := range evs {
			res.Outs = append(res.Outs, e.Out)
		}
		emit(res)
	}
}

// runBatch runs the programs through worker processes; a worker that dies
// is restarted on the rest, and the program it died on gets a "crash" event.
func runBatch(r *kit.Run, progs []plProg, runs string, timeoutMs, memMB int) map[int]plResult {
	results := map[int]plResult{}
	rest := progs
	for len(rest) > 0 {
		cmd := exec.Command(filepath.Join(kit.VerifDir(), ".build", "vh"), "worker", "pipeline", runs, fmt.Sprint(timeoutMs), fmt.Sprint(memMB))
		cmd.Env = append(os.Environ(), "GOMAXPROCS=2")
		var in bytes.Buffer
		for _, p := range rest {
			b, _ := json.Marshal(p)
			in.Write(b)
			in.WriteByte('\n')
		}
		cmd.Stdin = &in
		var stderr bytes.Buffer
		cmd.Stderr = &stderr
		stdout, err := cmd.StdoutPipe()
		if err != nil {
			r.Fatal("pipeline worker: %v", err)
		}
		if err := cmd.Start(); err != nil {
			r.Fatal("pipeline worker: %v", err)
		}
		started := 0
		rd := bufio.NewReaderSize(stdout, 1<<20)
		for {
			line, err := rd.ReadBytes('\n')
			if len(line) > 0 {
				var res plResult
				if json.Unmarshal(line, &res) == nil {
					if res.Start {
						started = res.ID
					} else {
						for i := range res.Ev {
							if i < len(res.Outs) {
								res.Ev[i].Out = res.Outs[i]
							}
						}
						results[res.ID] = res
						if res.Abort == "" {
							started = 0
						}
					}
				}
			}
			if err != nil {
				if err != io.EOF {
					r.Logf("pipeline worker read: %v", err)
				}
				break
			}
		}
		werr := cmd.Wait()
		// find where to resume
		idx := len(rest)
		if started != 0 {
			for i, p := range rest {
				if p.ID == started {
					idx = i
				}
			}
			if idx < len(rest) {
				if res, ok := results[started]; !ok || res.Abort == "" {
					results[started] = plResult{ID: started, Abort: "crash", Detail: fmt.Sprintf("worker died: %v\n%s", werr, firstLines(stderr.String(), 25))}
				}
				idx++
			}
		} else if werr != nil {
			r.Fatal("pipeline worker failed outside a program: %v\n%s", werr, firstLines(stderr.String(), 20))
		}
		rest = rest[idx:]
	}
	return results
}

func checkC02(r *kit.Run) {
	r.Assumptions = []string{
		"inputs: programs a/b/c over the 115-expression pool of Pipeline.tla (every hand-picked cyclic / erroneous program plus a seeded sample; all triples are out of reach: 10^6), byte-level mutants of four seed programs (operation x position x inserted text), and token soups of CueTokens.tla up to 2 (thorough 3) tokens",
		"each input runs in isolated worker processes with a ceiling of 10 s and 2 GB; three runs: context used for other programs before, fresh context (repeated three times in sequence and four times concurrently on separate goroutines, a differing repeat is the one recorded), another process; outputs are compared by digest of the printed CUE / JSON / YAML / error text",
		"a subset of the inputs (all hand-picked programs and a sample) also goes three times through the cue binary built from the working tree (cue eval, cue export --out json, cue export --out cue): exit status 0 or 1 only, identical output",
	}
	tres, err := kit.RunTLC(kit.TLCOpts{Module: "Pipeline", CfgText: "INIT TablesInit\nNEXT Stutter\nCONSTANTS Family = \"api\" Mode = \"automaton\" Sample = 0 MaxPos = 0\n", Dump: true, Workers: 1, Timeout: 5 * time.Minute})
	if err != nil || !tres.OK() {
		r.Fatal("Pipeline tables: %v\n%s", err, tres.Tail(20))
	}
	var pool, labels, seeds, ops, inserts []string
	kit.ForEachState(tres.DumpPath, nil, 1, func(_ int, st tlaval.State) {
		rec := tlaval.AsRec(st["prog"])
		strs := func(v tlaval.Value) (out []string) {
			for _, x := range tlaval.AsSeq(v) {
				out = append(out, tlaval.AsStr(x))
			}
			return
		}
		pool, labels, seeds, ops, inserts = strs(rec["pool"]), strs(rec["labels"]), strs(rec["seeds"]), strs(rec["ops"]), strs(rec["inserts"])
	})
	tres.Cleanup()
	if len(pool) < 50 || len(seeds) == 0 {
		r.Fatal("Pipeline tables: pool %d seeds %d", len(pool), len(seeds))
	}
	// the automaton itself
	ares, err := kit.RunTLC(kit.TLCOpts{Module: "Pipeline", Cfg: "Pipeline_automaton.cfg", Workers: 4, Timeout: 10 * time.Minute})
	if err != nil || ares.TimedOut || !ares.OK() {
		r.Fatal("Pipeline automaton: %v %s\n%s", err, ares.Violation, ares.Tail(20))
	}
	r.AddTLC("Pipeline automaton (TypeOK, Repeatable, ParseErrorEnds, ErrorValueNotExported, Terminates)", ares)
	ares.Cleanup()

	var progs []plProg
	desc := map[int]string{}
	add := func(src, d string) {
		id := len(progs) + 1
		progs = append(progs, plProg{ID: id, Src: src})
		desc[id] = d
	}
	// 1. programs
	res, err := kit.RunTLC(kit.TLCOpts{Module: "Pipeline", CfgText: fmt.Sprintf("INIT Init\nNEXT Stutter\nCONSTANTS Family = \"api\" Mode = \"programs\" Sample = %d MaxPos = 0\n", kit.Pick(r, 2500, 40000)), Dump: true, Seed: r.Seed + 5, Timeout: 20 * time.Minute})
	if err != nil || res.TimedOut || !res.OK() {
		r.Fatal("Pipeline programs: %v\n%s", err, res.Tail(20))
	}
	r.AddTLC("Pipeline programs", res)
	var pmu sync.Mutex
	kit.ForEachState(res.DumpPath, nil, 4, func(_ int, st tlaval.State) {
		ix := tlaval.IntSeq(st["prog"])
		var b strings.Builder
		for i, l := range labels {
			fmt.Fprintf(&b, "%s: %s\n", l, pool[ix[i]-1])
		}
		pmu.Lock()
		add(b.String(), "program "+fmt.Sprint(st["prog"]))
		pmu.Unlock()
	})
	res.Cleanup()
	nProgs := len(progs)
	// 2. mutants
	res, err = kit.RunTLC(kit.TLCOpts{Module: "Pipeline", CfgText: fmt.Sprintf("INIT Init\nNEXT Stutter\nCONSTANTS Family = \"api\" Mode = \"mutants\" Sample = %d MaxPos = 120\n", kit.Pick(r, 1500, 20000)), Dump: true, Seed: r.Seed + 6, Timeout: 20 * time.Minute})
	if err != nil || res.TimedOut || !res.OK() {
		r.Fatal("Pipeline mutants: %v\n%s", err, res.Tail(20))
	}
	r.AddTLC("Pipeline mutants", res)
	kit.ForEachState(res.DumpPath, nil, 4, func(_ int, st tlaval.State) {
		m := tlaval.AsRec(st["prog"])
		seed := seeds[tlaval.AsInt(m["seed"])-1]
		pos := tlaval.AsInt(m["pos"]) % len(seed)
		ins := inserts[tlaval.AsInt(m["ins"])-1]
		var src string
		switch ops[tlaval.AsInt(m["op"])-1] {
		case "delete":
			src = seed[:pos] + seed[pos+1:]
		case "duplicate":
			end := pos + 7
			if end > len(seed) {
				end = len(seed)
			}
			src = seed[:end] + seed[pos:]
		case "insert":
			src = seed[:pos] + ins + seed[pos:]
		case "replace":
			src = seed[:pos] + ins + seed[pos+1:]
		}
		pmu.Lock()
		add(src, "mutant "+fmt.Sprint(st["prog"]))
		pmu.Unlock()
	})
	res.Cleanup()
	nMut := len(progs) - nProgs
	// 3. token soups
	res, err = kit.RunTLC(kit.TLCOpts{Module: "CueTokens", CfgText: fmt.Sprintf("INIT Init\nNEXT Next\nCONSTANT L = %d\n", kit.Pick(r, 2, 3)), Dump: true, Timeout: 20 * time.Minute})
	if err != nil || res.TimedOut || !res.OK() {
		r.Fatal("CueTokens: %v\n%s", err, res.Tail(20))
	}
	r.AddTLC("CueTokens soups", res)
	kit.ForEachState(res.DumpPath, nil, 4, func(_ int, st tlaval.State) {
		var parts []string
		for _, t := range tlaval.IntSeq(st["ts"]) {
			parts = append(parts, c09Toks[t-1])
		}
		pmu.Lock()
		add(strings.Join(parts, " "), "soup "+fmt.Sprint(st["ts"]))
		pmu.Unlock()
	})
	res.Cleanup()
	nSoup := len(progs) - nProgs - nMut
	// ids follow the (parallel) order of addition; make the order deterministic
	sortProgs(progs, desc)

	// run: batches over worker processes
	timeoutMs, memMB := 10000, 2048
	nb := 16
	type batchOut struct{ a, b map[int]plResult }
	outs := make([]batchOut, nb)
	kit.ParallelN(nb, nb, func(_, bi int) {
		var mine []plProg
		for i := bi; i < len(progs); i += nb {
			mine = append(mine, progs[i])
		}
		outs[bi].a = runBatch(r, mine, "12", timeoutMs, memMB)
		outs[bi].b = runBatch(r, mine, "3", timeoutMs, memMB)
	})
	r12, r3 := map[int]plResult{}, map[int]plResult{}
	for _, o := range outs {
		for k, v := range o.a {
			r12[k] = v
		}
		for k, v := range o.b {
			r3[k] = v
		}
	}
	// a time ceiling hit while sixteen workers share a loaded machine says little: such programs
	// run once more, one at a time, with a ceiling of 120 s; only that verdict counts
	retried := 0
	for _, p := range progs {
		if r12[p.ID].Abort == "timeout" {
			retried++
			r12[p.ID] = runBatch(r, []plProg{p}, "12", 120000, memMB)[p.ID]
		}
		if r3[p.ID].Abort == "timeout" {
			retried++
			r3[p.ID] = runBatch(r, []plProg{p}, "3", 120000, memMB)[p.ID]
		}
	}
	r.Set("timeouts_retried_alone", retried)
	// traces for TLC
	var lines [][]byte
	var ids []int
	stageCount := map[string]int{}
	completeOK, parseErr := 0, 0
	for _, p := range progs {
		a, b := r12[p.ID], r3[p.ID]
		var evs []plEvent
		evs = append(evs, a.Ev...)
		if a.Abort != "" {
			evs = append(evs, plEvent{R: 1, St: "abort", Oc: a.Abort})
		}
		evs = append(evs, b.Ev...)
		if b.Abort != "" {
			evs = append(evs, plEvent{R: 3, St: "abort", Oc: b.Abort})
		}
		if len(evs) == 0 {
			evs = append(evs, plEvent{R: 1, St: "abort", Oc: "no-result"})
		}
		for _, e := range a.Ev {
			if e.R == 1 {
				stageCount[e.St+" "+e.Oc]++
			}
		}
		if len(a.Ev) > 0 && a.Ev[0].Oc == "err" {
			parseErr++
		}
		if n := len(a.Ev); n >= 14 && a.Ev[5].Oc == "ok" {
			completeOK++
		}
		line, _ := json.Marshal(map[string]any{"id": p.ID, "ev": evs})
		lines = append(lines, line)
		ids = append(ids, p.ID)
	}
	cfg := "SPECIFICATION TraceSpec\nCONSTANTS Family = \"api\" Mode = \"automaton\" Sample = 0 MaxPos = 0\nCONSTRAINT Progress2\nPOSTCONDITION AllAccepted\nCHECK_DEADLOCK FALSE\n"
	// canary: a trace with a differing digest in run 3, one with a panic event and one that stops early must be rejected
	canaries := 0
	for _, p := range progs {
		a, b := r12[p.ID], r3[p.ID]
		if len(a.Ev) >= 14 && len(b.Ev) >= 7 && a.Abort == "" && b.Abort == "" {
			mk := func(f func(evs []plEvent) []plEvent) []byte {
				evs := append(append([]plEvent{}, a.Ev...), b.Ev...)
				line, _ := json.Marshal(map[string]any{"id": -1, "ev": f(evs)})
				return line
			}
			bad := [][]byte{
				mk(func(evs []plEvent) []plEvent { evs[len(evs)-2].H ^= 1; return evs }),
				mk(func(evs []plEvent) []plEvent { evs[9].Oc = "panic"; return evs }),
				mk(func(evs []plEvent) []plEvent { return evs[:len(evs)-3] }),
			}
			for _, l := range bad {
				rej, _ := kit.ValidateTraces(r, "PipelineTrace", cfg, [][]byte{l}, "canary", 1)
				if len(rej) == 1 {
					canaries++
				}
			}
			break
		}
	}
	if canaries != 3 {
		r.Fatal("canary: %d of 3 corrupted traces rejected", canaries)
	}
	rejected, consumed := kit.ValidateTraces(r, "PipelineTrace", cfg, lines, "pipeline", 25)
	byID := map[int]plProg{}
	for _, p := range progs {
		byID[p.ID] = p
	}
	for _, ri := range rejected {
		id := ids[ri]
		p := byID[id]
		a, b := r12[id], r3[id]
		all := append(append([]plEvent{}, a.Ev...), b.Ev...)
		what := "the recorded runs are not a behaviour of Pipeline.tla"
		at := consumed[ri]
		var detail, key string
		switch {
		case a.Abort != "" || b.Abort != "":
			what = fmt.Sprintf("the pipeline did not return: %s%s %s%s", a.Abort, b.Abort, firstLines(a.Detail, 12), firstLines(b.Detail, 12))
		case at < len(all):
			e := all[at]
			detail = fmt.Sprintf("run %d stage %s outcome %s", e.R, e.St, e.Oc)
			if e.Oc == "panic" {
				what = "panic out of the API at stage " + e.St + ": " + firstLines(e.Out, 6)
			} else if e.R > 1 {
				// find run 1's event of that stage
				for _, e1 := range a.Ev {
					if e1.R == 1 && e1.St == e.St {
						if reLetID.ReplaceAllString(e1.Out, "$1#N") == reLetID.ReplaceAllString(e.Out, "$1#N") {
							key = "class let-id-in-output"
						}
						what = fmt.Sprintf("run %d differs from run 1 at stage %s:\n--- run 1 (%s)\n%s\n--- run %d (%s)\n%s", e.R, e.St, e1.Oc, e1.Out, e.R, e.Oc, e.Out)
					}
				}
			} else {
				what = fmt.Sprintf("stage %s returned %s, which the earlier stages of the same run rule out (%s)", e.St, e.Oc, stageSummary(a.Ev))
			}
		}
		if key == "" {
			key = desc[id]
			if detail != "" {
				key += " | " + detail
			}
		}
		r.Violation(key, what, map[string]any{"source": p.Src, "input": desc[id], "events_matched": at})
	}
	// ---- the same through the cue command (Family "cli") ----
	cueBinary = filepath.Join(kit.VerifDir(), ".build", "cue")
	if _, err := os.Stat(cueBinary); err != nil {
		r.Fatal("cue binary %s missing (bin/check builds it for C02)", cueBinary)
	}
	var cliProgs []plProg
	step := len(progs)/kit.Pick(r, 45, 1500) + 1
	for i, p := range progs {
		if strings.HasPrefix(desc[p.ID], "program") && (i%step == 0 || isFixedProg(p.Src)) || (!strings.HasPrefix(desc[p.ID], "program") && i%(step*3) == 0) {
			cliProgs = append(cliProgs, p)
		}
	}
	cliEvs := make([][]plEvent, len(cliProgs))
	kit.ParallelN(len(cliProgs), 12, func(_, i int) {
		dir, err := os.MkdirTemp("", "vh-c02-")
		if err != nil {
			return
		}
		defer os.RemoveAll(dir)
		os.WriteFile(filepath.Join(dir, "in.cue"), []byte(cliProgs[i].Src), 0o644)
		for run := 1; run <= 3; run++ {
			for _, st := range [][]string{{"cli-eval", "eval", "in.cue"}, {"cli-json", "export", "--out", "json", "in.cue"}, {"cli-cue", "export", "--out", "cue", "in.cue"}} {
				ctx, cancel := context.WithTimeout(context.Background(), 20*time.Second)
				cmd := exec.CommandContext(ctx, cueBinary, st[1:]...)
				cmd.Dir = dir
				cmd.Env = append(os.Environ(), "CUE_CACHE_DIR="+filepath.Join(dir, ".cache"), "HOME="+dir, "GOMAXPROCS=2")
				var so, se bytes.Buffer
				cmd.Stdout, cmd.Stderr = &so, &se
				err := cmd.Run()
				timedOut := ctx.Err() != nil
				cancel()
				if timedOut {
					// slow or hanging? the machine may be loaded: once more, alone in this goroutine, with a long limit
					ctx2, cancel2 := context.WithTimeout(context.Background(), 150*time.Second)
					cmd = exec.CommandContext(ctx2, cueBinary, st[1:]...)
					cmd.Dir = dir
					cmd.Env = append(os.Environ(), "CUE_CACHE_DIR="+filepath.Join(dir, ".cache"), "HOME="+dir, "GOMAXPROCS=2")
					so.Reset()
					se.Reset()
					cmd.Stdout, cmd.Stderr = &so, &se
					err = cmd.Run()
					timedOut = ctx2.Err() != nil
					cancel2()
				}
				e := plEvent{R: run, St: st[0], Oc: "ok", Out: so.String() + se.String()}
				if ee, ok := err.(*exec.ExitError); ok {
					switch {
					case timedOut:
						e.Oc = "timeout"
					case ee.ExitCode() == 1:
						e.Oc = "err"
					default:
						e.Oc = "crash"
						e.Out = fmt.Sprintf("%v\n%s", err, firstLines(se.String(), 30))
					}
				} else if err != nil {
					e.Oc = "crash"
					e.Out = err.Error()
				}
				e.H = plDigest(e.Oc + "\x00" + e.Out)
				cliEvs[i] = append(cliEvs[i], e)
			}
		}
	})
	var cliLines [][]byte
	for i, p := range cliProgs {
		line, _ := json.Marshal(map[string]any{"id": p.ID, "ev": cliEvs[i]})
		cliLines = append(cliLines, line)
	}
	cliCfg := strings.Replace(cfg, `Family = "api"`, `Family = "cli"`, 1)
	cres, err := kit.RunTLC(kit.TLCOpts{Module: "Pipeline", Cfg: "Pipeline_automaton_cli.cfg", Workers: 4, Timeout: 10 * time.Minute})
	if err != nil || cres.TimedOut || !cres.OK() {
		r.Fatal("Pipeline automaton (cli): %v %s\n%s", err, cres.Violation, cres.Tail(20))
	}
	r.AddTLC("Pipeline automaton, family cli", cres)
	cres.Cleanup()
	crej, ccons := kit.ValidateTraces(r, "PipelineTrace", cliCfg, cliLines, "pipeline-cli", 25)
	for _, ri := range crej {
		p, evs, at := cliProgs[ri], cliEvs[ri], ccons[ri]
		what, key := "the recorded command runs are not a behaviour of Pipeline.tla (family cli)", "cli "+desc[p.ID]
		if at < len(evs) {
			e := evs[at]
			key += fmt.Sprintf(" | run %d %s %s", e.R, e.St, e.Oc)
			if e.Oc != "ok" && e.Oc != "err" {
				what = fmt.Sprintf("cue %s did not end with exit status 0 or 1: %s\n%s", e.St, e.Oc, firstLines(e.Out, 12))
			} else {
				for _, e1 := range evs {
					if e1.R == 1 && e1.St == e.St {
						if reLetID.ReplaceAllString(e1.Out, "$1#N") == reLetID.ReplaceAllString(e.Out, "$1#N") {
							key = "class let-id-in-output"
						}
						what = fmt.Sprintf("run %d of cue %s differs from run 1:\n--- run 1 (%s)\n%s\n--- run %d (%s)\n%s", e.R, e.St, e1.Oc, e1.Out, e.R, e.Oc, e.Out)
					}
				}
			}
		}
		r.Violation(key, what, map[string]any{"source": p.Src, "input": desc[p.ID], "events_matched": at})
	}
	r.Set("cli_programs", len(cliProgs))
	for i, p := range progs {
		if i%(len(progs)/12+1) == 0 {
			r.Sample(map[string]any{"input": desc[p.ID], "source": p.Src, "stages_run1": stageSummary(r12[p.ID].Ev)})
		}
	}
	r.Set("traces_validated_against_impl", len(lines))
	r.Set("evaluations", len(lines)*3)
	r.Set("programs", nProgs)
	r.Set("mutants", nMut)
	r.Set("token_soups", nSoup)
	r.Set("parse_errors", parseErr)
	r.Set("distinct_nontrivial", len(lines)-parseErr)
	r.Set("exports_ok", completeOK)
	r.Set("stage_outcomes_run1", stageCount)
	r.Set("canaries_rejected", canaries)
	r.Set("rule", "every input is run three times (used context, fresh context, another process) in worker processes under a 10 s (on a first timeout: alone with 120 s) / 2 GB ceiling; the recorded stage events (stage, ok/err, digest of the printed output or error text) of all three runs form one trace, validated by TLC against PipelineTrace.tla: stages in order, only ok/err outcomes, the stage-consistency rules of Pipeline.tla, all three runs complete and equal event by event; non-trivial = inputs that parse")
}

// the hand-picked programs of Pipeline.tla are always sent through the command line too
func isFixedProg(src string) bool {
	for _, m := range []string{"a: {\"#a\": 1}\nb: {#a: 2}", "a: {>5, x!: int}\nb: {x!: int} & >5", "a: [1, 2, 3][5:]\nb: 'abc'[4:]", "a: {let L = L2", "a: a\nb: 1\nc: 1\n", "a: {x: [...x]}\nb: {x?: x}"} {
		if strings.Contains(src, m) {
			return true
		}
	}
	return false
}

// plKey is the comparable part of a run's events.
func plKey(evs []plEvent) (out []string) {
	for _, e := range evs {
		out = append(out, fmt.Sprintf("%s/%s/%d", e.St, e.Oc, e.H))
	}
	return out
}

func stageSummary(evs []plEvent) string {
	var parts []string
	for _, e := range evs {
		if e.R == 1 || e.R == 3 {
			parts = append(parts, e.St+"="+e.Oc)
		}
	}
	return strings.Join(parts, " ")
}

func sortProgs(progs []plProg, desc map[int]string) {
	// order by description (deterministic), then renumber
	type pd struct {
		p plProg
		d string
	}
	all := make([]pd, len(progs))
	for i, p := range progs {
		all[i] = pd{p, desc[p.ID]}
	}
	sort.Slice(all, func(i, j int) bool { return all[i].d < all[j].d })
	for k := range desc {
		delete(desc, k)
	}
	for i := range all {
		progs[i] = plProg{ID: i + 1, Src: all[i].p.Src}
		desc[i+1] = all[i].d
	}
}

// the unique suffix of a let identifier as the debug printer shows it
var reLetID = regexp.MustCompile(`(let [A-Za-z_][A-Za-z0-9_]*)#[0-9A-F]+`)

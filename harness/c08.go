package main

import (
	"fmt"
	"os"
	"path/filepath"
	"sort"
	"strings"
	"sync"
	"sync/atomic"
	"time"

	"cuelang.org/go/cue/ast"
	"cuelang.org/go/cue/format"
	"cuelang.org/go/cue/literal"
	"cuelang.org/go/cue/parser"
	"cuelang.org/go/cue/scanner"
	"cuelang.org/go/cue/token"
	"cuelang.org/go/verifharness/kit"
	"cuelang.org/go/verifharness/tlaval"
	"golang.org/x/tools/txtar"
)

func init() { register("C08", "exploration", checkC08) }

type fmtLayout struct {
	sep, colon, op     int
	parens, trail, hug bool
	blank              int
	indent             string
	doc, line, in, end bool
	between            bool
	ccolon, celem, cop bool
}

func (l fmtLayout) S() string { return []string{" ", "", "   "}[l.colon-1] }

// S0 is the text after the colon of a top-level field (may carry a comment and a line break)
func (l fmtLayout) S0() string {
	if l.ccolon {
		return " // colon\n" + l.ind() + l.ind()
	}
	return l.S()
}
func (l fmtLayout) O() string { return []string{" ", "", "  "}[l.op-1] }

// OB is the text after a binary operator (may carry a comment and a line break)
func (l fmtLayout) OB() string {
	if l.cop {
		return " // op\n" + l.ind() + l.ind()
	}
	return l.O()
}
func (l fmtLayout) LP() string { return map[bool]string{true: "(", false: ""}[l.parens] }
func (l fmtLayout) RP() string { return map[bool]string{true: ")", false: ""}[l.parens] }
func (l fmtLayout) ind() string {
	switch l.indent {
	case "tab":
		return "\t"
	case "spaces":
		return "    "
	}
	return ""
}

// members joins struct members under the layout, with the "in" / "between" /
// "end" comment slots; forceLines when a comment requires line breaks.
func (l fmtLayout) members(ms ...string) string {
	sep := []string{", ", "\n" + l.ind(), ",\n" + l.ind()}[l.sep-1]
	multi := l.sep != 1 || l.in || l.end || l.between
	if multi && l.sep == 1 {
		sep = "\n" + l.ind()
	}
	var b strings.Builder
	b.WriteString("{")
	if l.in {
		b.WriteString(" // in\n" + l.ind())
	} else if multi {
		b.WriteString("\n" + l.ind())
	}
	for i, m := range ms {
		if i > 0 {
			b.WriteString(sep)
			if l.between {
				b.WriteString("// between\n" + l.ind())
			}
		}
		b.WriteString(m)
	}
	if l.end {
		b.WriteString("\n" + l.ind() + "// end")
	}
	if multi {
		b.WriteString("\n")
	}
	b.WriteString("}")
	return b.String()
}

func (l fmtLayout) list(es ...string) string {
	sep := []string{", ", ",\n" + l.ind(), ",\n" + l.ind()}[l.sep-1]
	multi := l.sep != 1 || l.end || l.celem
	var b strings.Builder
	b.WriteString("[")
	if multi {
		b.WriteString("\n" + l.ind())
		if l.sep == 1 {
			sep = ",\n" + l.ind()
		}
	}
	if l.celem && multi {
		for _, e := range es {
			b.WriteString(e + ", // elem\n" + l.ind())
		}
	} else {
		b.WriteString(strings.Join(es, sep))
		if (l.trail || multi) && !(l.hug && multi && !l.end) {
			b.WriteString(",")
		}
	}
	if l.end {
		b.WriteString("\n" + l.ind() + "// end")
	}
	if multi && !(l.hug && !l.end && !l.celem) {
		b.WriteString("\n")
	}
	b.WriteString("]")
	return b.String()
}

func (l fmtLayout) decl(kind string, n int) (text string, needsStrings bool) {
	S, S0, O, OB, LP, RP := l.S(), l.S0(), l.O(), l.OB(), l.LP(), l.RP()
	doc, line := "", ""
	if l.doc {
		doc = fmt.Sprintf("// doc %d\n", n)
	}
	if l.line {
		line = " // line"
	}
	f := func(name string) string { return fmt.Sprintf("%s%d", name, n) }
	switch kind {
	case "field":
		return doc + f("a") + ":" + S0 + LP + "1" + RP + line, false
	case "structfield":
		return doc + f("s") + ":" + S0 + l.members("x:"+S+"1", "y:"+S+`"two"`) + line, false
	case "chain":
		return doc + f("p") + ": q: r:" + S + LP + "1" + O + "+" + OB + "2" + RP + line, false
	case "list":
		return doc + f("l") + ":" + S0 + l.list("1", LP+"2"+RP, "3") + line, false
	case "embed":
		return f("#D") + ":" + S0 + "{z:" + S + "int}\n" + doc + f("em") + ":" + S0 + l.members(f("#D"), "w:"+S+"1") + line, false
	case "let":
		return "let " + f("L") + O + "=" + O + "{k:" + S + "1}" + line + "\n" + f("lu") + ":" + S0 + f("L") + ".k", false
	case "attr":
		return doc + f("t") + ":" + S0 + "1 @go(T,x=1) @json(t)" + line, false
	case "forcomp":
		return doc + f("fc") + ":" + S0 + "{for k, v in {m:" + S + "1} " + l.members("(k):"+S+"v") + "}" + line, false
	case "ifcomp":
		return doc + f("ic") + ":" + S0 + "{if true" + O + "&&" + O + "true " + l.members("c1:"+S+"1") + "}" + line, false
	case "call":
		return doc + f("j") + ":" + S0 + "strings.Join(" + l.list(`"a"`, `"b"`) + "," + S + `"-")` + line, true
	case "optreq":
		return doc + f("o") + "?:" + S0 + "int" + line + "\n" + f("r") + "!:" + S0 + "string", false
	case "def":
		return doc + f("#E") + ":" + S0 + l.members("v:"+S+"int", "u?:"+S+"string") + line, false
	case "mlstring":
		return doc + f("m") + ":" + S0 + "\"\"\"\n\tline1\n\t  line2 \\(1" + O + "+" + O + "1)\n\t\"\"\"" + line, false
	case "binchain":
		return doc + f("e") + ":" + S0 + "1" + O + "+" + OB + "2" + O + "*" + O + "(3" + O + "-" + O + LP + "4" + RP + ")" + O + "&" + OB + "int" + O + "|" + OB + "*5" + line, false
	case "pattern":
		return doc + f("pc") + ":" + S0 + l.members("[string]:"+S+"int", `[=~"^a"]:`+S+"<10", "...") + line, false
	case "listcomp":
		return doc + f("lc") + ":" + S0 + "[for x in [1,2] if x" + O + ">" + O + "1 {x" + O + "*" + O + "2}]" + line, false
	case "emptystruct":
		if l.in {
			return doc + f("es") + ":" + S0 + "{\n" + l.ind() + "// only a comment\n}" + line, false
		}
		return doc + f("es") + ":" + S0 + "{}" + line, false
	case "nestedlist":
		return doc + f("nl") + ":" + S0 + l.list(l.list("1", "2"), "[]", l.members("q:"+S+"1")) + line, false
	case "callml":
		return doc + f("cm") + ":" + S0 + "strings.Join([\n" + l.ind() + `"a",` + "\n" + l.ind() + `"b",` + "\n]," + map[bool]string{true: "\n" + l.ind(), false: S}[l.hug] + `"-")` + line, true
	case "selidx":
		return doc + f("si") + ":" + S0 + "{a:" + S + "[1,2,3]}.a[1" + O + "+" + O + "0]" + O + "+" + OB + "[1,2,3][0:2][0]" + line, false
	case "interp":
		return doc + f("ip") + ":" + S0 + `"a \(1` + O + "+" + O + `2) b \("x") #"` + line + "\n" + f("ip2") + ":" + S + `#"raw \#(1` + O + `+` + O + `1) \(x)"#`, false
	case "alias":
		return doc + f("al") + ":" + S0 + "{X" + O + "=" + O + "x:" + S + "1, y:" + S + "X}" + line, false
	case "ellipsis":
		return doc + f("el") + ":" + S0 + l.list("1", "...int") + line + "\n" + f("#el") + ":" + S + l.members("a:"+S+"1", "..."), false
	case "dynfield":
		return doc + f("dy") + ":" + S0 + l.members(`"quoted key":`+S+"1", `"\("a")b":`+S+"2", "(\"x\"):"+S+"3") + line, false
	case "unary":
		return doc + f("un") + ":" + S0 + "-" + LP + "1" + RP + O + "+" + OB + "+2" + line + "\n" + f("ub") + ":" + S + "!true" + O + "||" + O + "!" + LP + "false" + RP + "\n" + f("uc") + ":" + S + ">=1" + O + "&" + O + "<" + LP + "10" + RP + O + "&" + O + `!=5 & =~"^1"`, false
	case "mlplain":
		// no interpolation; a line holding only the indentation, an empty line, a deeper line
		I := l.ind() + l.ind()
		return doc + f("mp") + ":" + S0 + "\"\"\"\n" + I + "foo\n" + I + "\n\n" + I + "  bar\n" + I + "\"\"\"" + line, false
	case "mlbytes":
		I := l.ind()
		return doc + f("mb") + ":" + S0 + "'''\n" + I + "foo\n" + I + "\n" + I + "\tbar\n" + I + "baz\n" + I + "'''" + line + "\n" + f("mh") + ":" + S + "#\"\"\"\n" + I + I + "a \\(x) \\#(1)\n" + I + I + "\"\"\"#", false
	case "chaininline":
		// field chains inside a braced struct written on one line, with a sibling after the comma
		return doc + f("ci") + ":" + S0 + "{a: b:" + S + "1" + O + "+" + OB + "2, y:" + S + "2}" + line + "\n" +
			f("cj") + ":" + S + "{c: d:" + S + "-" + OB + "3, z:" + S + "3}", false
	case "disjml":
		return doc + f("dj") + ":" + S0 + `*"a"` + O + "|\n" + l.ind() + l.ind() + `"b"` + O + "|" + OB + `"c"` + line, false
	}
	panic("unknown decl kind " + kind)
}

func (l fmtLayout) file(kinds []string) string {
	var b strings.Builder
	var body []string
	imp := false
	for i, k := range kinds {
		t, ns := l.decl(k, i)
		imp = imp || ns
		body = append(body, t)
	}
	if l.doc {
		b.WriteString("// file comment\n\n")
	}
	b.WriteString("package p\n")
	if imp {
		b.WriteString(strings.Repeat("\n", l.blank) + "import \"strings\"\n")
	}
	for _, t := range body {
		b.WriteString(strings.Repeat("\n", l.blank))
		b.WriteString(t + "\n")
	}
	return b.String()
}

// treeString renders a syntax tree without positions: node types, literal
// text, operators, attributes and every comment with the place it is
// attached to.
func treeString(n ast.Node) string { return treeDump(n, true) }

// treeDump renders the tree; withComments=false leaves every comment out (the code alone).
func treeDump(n ast.Node, withComments bool) string {
	var b strings.Builder
	depth := 0
	// multi-line string literals: the indentation of the closing delimiter is layout, not content
	norm := map[*ast.BasicLit]string{}
	stripIndent := func(lits []*ast.BasicLit) {
		if len(lits) == 0 {
			return
		}
		last := lits[len(lits)-1].Value
		i := strings.LastIndex(last, "\n")
		if i < 0 {
			return
		}
		rest := last[i+1:]
		ws := rest[:len(rest)-len(strings.TrimLeft(rest, " \t"))]
		for _, l := range lits {
			norm[l] = strings.ReplaceAll(l.Value, "\n"+ws, "\n")
		}
	}
	ast.Walk(n, func(nd ast.Node) bool {
		switch x := nd.(type) {
		case *ast.Field:
			// a string label denotes the field of that name however it is quoted
			if l, ok := x.Label.(*ast.BasicLit); ok && l.Kind == token.STRING {
				if u, err := literal.Unquote(l.Value); err == nil {
					norm[l] = "label:" + u
				}
			}
		case *ast.Interpolation:
			var lits []*ast.BasicLit
			for _, e := range x.Elts {
				if l, ok := e.(*ast.BasicLit); ok {
					lits = append(lits, l)
				}
			}
			stripIndent(lits)
		case *ast.BasicLit:
			if _, done := norm[x]; !done && x.Kind == token.STRING && strings.Contains(x.Value, "\n") {
				stripIndent([]*ast.BasicLit{x})
			}
		}
		return true
	}, nil)
	// a doc comment the parser hung on a field's label (a field continuing a chain on a new line)
	// stands before the field: report it as the field's
	labelDocs := map[*ast.Field][]*ast.CommentGroup{}
	skip := map[*ast.CommentGroup]bool{}
	skipEmpty := map[*ast.ImportDecl]bool{}
	ast.Walk(n, func(nd ast.Node) bool {
		if f, ok := nd.(*ast.Field); ok && f.Label != nil {
			for _, cg := range ast.Comments(f.Label) {
				if cg.Position == 0 {
					labelDocs[f] = append(labelDocs[f], cg)
					skip[cg] = true
				}
			}
		}
		return true
	}, nil)
	var dumpCG func(cg *ast.CommentGroup, depth int)
	dumpCG = func(cg *ast.CommentGroup, depth int) {
		fmt.Fprintf(&b, "%sCommentGroup doc=true pos=0\n", strings.Repeat(" ", depth))
		for _, c := range cg.List {
			fmt.Fprintf(&b, "%sComment %q\n", strings.Repeat(" ", depth+1), c.Text)
		}
	}
	ast.Walk(n, func(nd ast.Node) bool {
		if cg, ok := nd.(*ast.CommentGroup); ok && (skip[cg] || !withComments) {
			return false
		}
		// an import declaration without specs imports nothing; the formatter drops it on purpose
		// (tools/trim relies on that, see its rmimport test)
		if id, ok := nd.(*ast.ImportDecl); ok && len(id.Specs) == 0 {
			skipEmpty[id] = true
			return false
		}
		b.WriteString(strings.Repeat(" ", depth))
		switch x := nd.(type) {
		case *ast.CommentGroup:
			// Line (the comment shares a line with the preceding token) is layout; Doc and Position say where it is attached
			fmt.Fprintf(&b, "CommentGroup doc=%v pos=%d", x.Doc, x.Position)
		case *ast.Comment:
			fmt.Fprintf(&b, "Comment %q", x.Text)
		case *ast.BasicLit:
			v := x.Value
			if nv, ok := norm[x]; ok {
				v = nv
			}
			fmt.Fprintf(&b, "BasicLit %v %q", x.Kind, v)
		case *ast.Ident:
			fmt.Fprintf(&b, "Ident %q", x.Name)
		case *ast.Field:
			fmt.Fprintf(&b, "Field constraint=%v", x.Constraint)
		case *ast.BinaryExpr:
			fmt.Fprintf(&b, "BinaryExpr %v", x.Op)
		case *ast.UnaryExpr:
			fmt.Fprintf(&b, "UnaryExpr %v", x.Op)
		case *ast.Attribute:
			fmt.Fprintf(&b, "Attribute %q", x.Text)
		case *ast.ImportSpec:
			fmt.Fprintf(&b, "ImportSpec")
		case *ast.Interpolation:
			fmt.Fprintf(&b, "Interpolation")
		default:
			fmt.Fprintf(&b, "%T", nd)
		}
		b.WriteString("\n")
		depth++
		if f, ok := nd.(*ast.Field); ok && withComments {
			for _, cg := range labelDocs[f] {
				dumpCG(cg, depth)
			}
		}
		return true
	}, func(nd ast.Node) {
		if cg, ok := nd.(*ast.CommentGroup); ok && skip[cg] {
			return
		}
		if id, ok := nd.(*ast.ImportDecl); ok && skipEmpty[id] {
			return
		}
		depth--
	})
	return b.String()
}

func checkC08(r *kit.Run) {
	r.Assumptions = []string{
		"files: sequences of <= 2 declaration kinds of FmtLayout.tla under a seeded sample of layouts (member separator, spaces after colons and around operators, redundant parentheses, blank lines, trailing commas, indentation) with comments in up to two of five slots",
		"the syntax tree is compared without positions: node types, literal text, operators, attributes, and every comment group with its doc/line flags and attachment position",
		"arbitrary parseable files (the repository's own .cue corpus) are not part of this model-generated space; the -s simplifications are only checked for idempotence",
	}
	tres, err := kit.RunTLC(kit.TLCOpts{Module: "FmtLayout", CfgText: "INIT TablesInit\nNEXT Next\nCONSTANTS MaxDecls = 0 Sample = 0 NFiles = 0\n", Dump: true, Workers: 1, Timeout: 5 * time.Minute})
	if err != nil || !tres.OK() {
		r.Fatal("FmtLayout tables: %v\n%s", err, tres.Tail(20))
	}
	var kinds []string
	kit.ForEachState(tres.DumpPath, nil, 1, func(_ int, st tlaval.State) {
		for _, x := range tlaval.AsSeq(tlaval.AsRec(st["decls"])["kinds"]) {
			kinds = append(kinds, tlaval.AsStr(x))
		}
	})
	tres.Cleanup()
	res, err := kit.RunTLC(kit.TLCOpts{Module: "FmtLayout", CfgText: fmt.Sprintf("INIT Init\nNEXT Next\nCONSTANTS MaxDecls = %d Sample = %d NFiles = 0\n", kit.Pick(r, 2, 2), kit.Pick(r, 6, 48)), Dump: true, Seed: r.Seed + 23, Timeout: 30 * time.Minute, Heap: "24g"})
	defer res.Cleanup()
	if err != nil || res.TimedOut || !res.OK() {
		r.Fatal("FmtLayout model: %v\n%s", err, res.Tail(20))
	}
	r.AddTLC("FmtLayout files", res)
	var files, unparsable, canary, caught int64
	var cliMu sync.Mutex
	var cliCases [][3]string
	cliEvery := kit.Pick(r, 400, 300)
	n, err := kit.ForEachState(res.DumpPath, nil, 16, func(w int, st tlaval.State) {
		lr := tlaval.AsRec(st["layout"])
		l := fmtLayout{sep: tlaval.AsInt(lr["sep"]), colon: tlaval.AsInt(lr["colon"]), op: tlaval.AsInt(lr["op"]), parens: tlaval.AsBool(lr["parens"]),
			trail: tlaval.AsBool(lr["trail"]), hug: tlaval.AsBool(lr["hug"]), blank: tlaval.AsInt(lr["blank"]), indent: tlaval.AsStr(lr["indent"])}
		for _, c := range tlaval.StrSet(st["comments"]) {
			switch c {
			case "doc":
				l.doc = true
			case "line":
				l.line = true
			case "in":
				l.in = true
			case "end":
				l.end = true
			case "between":
				l.between = true
			case "colon":
				l.ccolon = true
			case "elem":
				l.celem = true
			case "op":
				l.cop = true
			}
		}
		var ks []string
		for _, i := range tlaval.IntSeq(st["decls"]) {
			ks = append(ks, kinds[i-1])
		}
		src := l.file(ks)
		typ, what, extra, parsed := c08Verdict(src)
		if !parsed {
			atomic.AddInt64(&unparsable, 1)
			if atomic.LoadInt64(&unparsable) < 4 {
				r.Logf("generated file does not parse (skipped): %s\n%s", what, src)
			}
			return
		}
		atomic.AddInt64(&files, 1)
		if typ != "" {
			// shrink to the smallest failing (declaration kind, comment slots) under the same layout
			class := fmt.Sprintf("%s %v comments=%v", typ, ks, st["comments"])
			slots := []string{"doc", "line", "in", "end", "between", "colon", "elem", "op"}
		shrink:
			for nslots := 0; nslots <= 2; nslots++ {
				for _, k := range ks {
					for mask := 0; mask < 256; mask++ {
						if bitsOn(mask) != nslots {
							continue
						}
						m := l
						m.doc, m.line, m.in, m.end, m.between = mask&1 != 0 && l.doc, mask&2 != 0 && l.line, mask&4 != 0 && l.in, mask&8 != 0 && l.end, mask&16 != 0 && l.between
						m.ccolon, m.celem, m.cop = mask&32 != 0 && l.ccolon, mask&64 != 0 && l.celem, mask&128 != 0 && l.cop
						if t2, w2, e2, ok := c08Verdict(m.file([]string{k})); ok && t2 == typ {
							var on []string
							for i, s := range slots {
								if mask&(1<<i) != 0 && []bool{l.doc, l.line, l.in, l.end, l.between, l.ccolon, l.celem, l.cop}[i] {
									on = append(on, s)
								}
							}
							if bitsOn(mask) != len(on) {
								continue
							}
							class = fmt.Sprintf("class %s kind=%s comments=%v", typ, k, on)
							what, extra = w2, e2
							break shrink
						}
					}
				}
			}
			r.Violation(class, what, extra)
			return
		}
		out := extra["formatted"]
		t1 := extra["tree"]
		if fi := atomic.LoadInt64(&files); fi%int64(cliEvery) == 0 {
			cliMu.Lock()
			cliCases = append(cliCases, [3]string{key08(ks, st), src, out})
			cliMu.Unlock()
		}
		if files%3000 == 1 {
			r.Sample(map[string]any{"source": src, "formatted": out})
			atomic.AddInt64(&canary, 1)
			// canary: a file with one comment moved must have a different tree
			alt, err := parser.ParseFile("alt.cue", "// moved\n"+out+"zz: 1\n", parser.ParseComments)
			if err == nil && treeString(alt) != t1 {
				atomic.AddInt64(&caught, 1)
			}
		}
	})
	if err != nil {
		r.Fatal("FmtLayout dump: %v", err)
	}
	if (canary == 0 && r.Violations() == 0) || caught != canary {
		r.Fatal("canary: %d of %d altered files have a different tree", caught, canary)
	}
	// ---- the repository's own sources and their whitespace / comment mutants ----
	corpus := loadCorpus(kit.RepoDir())
	if len(corpus) < 500 {
		r.Fatal("corpus: only %d parseable CUE sources found below %s", len(corpus), kit.RepoDir())
	}
	var cops []string
	{
		tr, err := kit.RunTLC(kit.TLCOpts{Module: "FmtLayout", CfgText: "INIT TablesInit\nNEXT Next\nCONSTANTS MaxDecls = 0 Sample = 0 NFiles = 0\n", Dump: true, Workers: 1, Timeout: 5 * time.Minute})
		if err != nil || !tr.OK() {
			r.Fatal("FmtLayout tables: %v", err)
		}
		kit.ForEachState(tr.DumpPath, nil, 1, func(_ int, st tlaval.State) {
			for _, x := range tlaval.AsSeq(tlaval.AsRec(st["decls"])["ops"]) {
				cops = append(cops, tlaval.AsStr(x))
			}
		})
		tr.Cleanup()
	}
	cres, err := kit.RunTLC(kit.TLCOpts{Module: "FmtLayout", CfgText: fmt.Sprintf("INIT CorpusInit\nNEXT Next\nCONSTANTS MaxDecls = 0 Sample = %d NFiles = %d\n", kit.Pick(r, 8000, 200000), len(corpus)), Dump: true, Seed: r.Seed + 29, Timeout: 30 * time.Minute, Heap: "16g"})
	if err != nil || cres.TimedOut || !cres.OK() {
		r.Fatal("FmtLayout corpus model: %v\n%s", err, cres.Tail(20))
	}
	r.AddTLC("FmtLayout corpus mutants", cres)
	var cfiles, cskipped int64
	_, err = kit.ForEachState(cres.DumpPath, nil, 16, func(w int, st tlaval.State) {
		m := tlaval.AsRec(st["decls"])
		cf := corpus[tlaval.AsInt(m["file"])-1]
		op := cops[tlaval.AsInt(m["op"])-1]
		src, mctx := mutateAtToken(cf.src, op, tlaval.AsInt(m["at"]))
		typ, what, extra, parsed := c08Verdict(src)
		if !parsed {
			atomic.AddInt64(&cskipped, 1)
			return
		}
		atomic.AddInt64(&cfiles, 1)
		if typ != "" {
			delete(extra, "tree")
			extra["input"] = fmt.Sprintf("%s op=%s at=%d", cf.name, op, tlaval.AsInt(m["at"]))
			key := fmt.Sprintf("corpus %s %s", typ, cf.name)
			if op != "none" {
				// a mutation at an arbitrary token boundary: one class per kind of failure (see DESIGN.md §10.4)
				key = "class corpus-mutant " + typ
				r.Add("corpus_mutant_failures_"+typ, 1)
				extra["context"] = op + " " + mctx
			}
			r.Violation(key, what+"\n(input: "+extra["input"]+")", extra)
		}
	})
	cres.Cleanup()
	if err != nil {
		r.Fatal("FmtLayout corpus dump: %v", err)
	}
	r.Set("corpus_sources", len(corpus))
	r.Set("corpus_inputs_checked", int(cfiles))
	r.Set("corpus_mutants_not_parsing", int(cskipped))
	// the command line: `cue fmt --files dir` must write exactly what format.Source gives, and
	// `cue fmt --check` must then find nothing left to do
	cueBinary = filepath.Join(kit.VerifDir(), ".build", "cue")
	if _, err := os.Stat(cueBinary); err != nil {
		r.Fatal("cue binary %s missing (bin/check builds it for C08)", cueBinary)
	}
	dir, err := os.MkdirTemp("", "vh-fmt-")
	if err != nil {
		r.Fatal("%v", err)
	}
	defer os.RemoveAll(dir)
	for i, c := range cliCases {
		os.WriteFile(filepath.Join(dir, fmt.Sprintf("f%06d.cue", i)), []byte(c[1]), 0o644)
	}
	if _, se, code := runCue(dir, "fmt", "--files", "."); code != 0 {
		r.Violation("cli fmt fails", fmt.Sprintf("cue fmt --files exits %d on files that parse: %s", code, firstLines(string(se), 5)), map[string]any{"files": len(cliCases)})
	} else {
		for i, c := range cliCases {
			got, _ := os.ReadFile(filepath.Join(dir, fmt.Sprintf("f%06d.cue", i)))
			if string(got) != c[2] {
				r.Violation("cli differs "+c[0], "cue fmt writes something else than format.Source returns", map[string]any{"source": c[1], "formatted_by_api": c[2], "formatted_by_cli": string(got)})
			}
		}
		if so, se, code := runCue(dir, "fmt", "--check", "--files", "."); code != 0 {
			r.Violation("cli not idempotent", fmt.Sprintf("cue fmt --check after cue fmt exits %d: %s %s", code, firstLines(string(so), 5), firstLines(string(se), 5)), map[string]any{"files": len(cliCases)})
		}
	}
	r.Set("cli_files", len(cliCases))
	if unparsable*5 > int64(n) {
		r.Fatal("%d of %d generated files do not parse: the renderer is wrong", unparsable, n)
	}
	r.Set("evaluations", int(files))
	r.Set("generated_files_not_parsing", int(unparsable))
	r.Set("distinct_nontrivial", int(files))
	r.Set("canaries_rejected", int(caught))
	r.Set("rule", "every (declaration sequence, layout, comment slots) state of FmtLayout.tla is rendered, parsed, formatted with format.Source, parsed again (position-free trees incl. comment attachment must be equal) and formatted again (byte-identical); format.Simplify output must parse and be idempotent; a sample of the files goes through `cue fmt --files` (binary built from the working tree), which must write the same bytes and leave nothing for `cue fmt --check`; distinct_nontrivial = files that parsed and went through all steps")
}

func firstDiff(a, b string) string {
	la, lb := strings.Split(a, "\n"), strings.Split(b, "\n")
	for i := 0; i < len(la) && i < len(lb); i++ {
		if la[i] != lb[i] {
			lo := i - 2
			if lo < 0 {
				lo = 0
			}
			return fmt.Sprintf("line %d:\n  before: %s\n  after:  %s\n  context: %v", i, la[i], lb[i], la[lo:i])
		}
	}
	return fmt.Sprintf("length %d vs %d", len(la), len(lb))
}

func bitsOn(m int) int {
	n := 0
	for ; m != 0; m &= m - 1 {
		n++
	}
	return n
}

// c08Verdict runs the protocol on one file: parse, format, parse, compare,
// format again. typ is empty when the property held.
func c08Verdict(src string) (typ, what string, extra map[string]string, parsed bool) {
	f1, err := parser.ParseFile("in.cue", src, parser.ParseComments)
	if err != nil {
		return "", err.Error(), nil, false
	}
	extra = map[string]string{"source": src}
	out, err := format.Source([]byte(src))
	if err != nil {
		return "format-fails", "formatting a file that parses fails: " + err.Error(), extra, true
	}
	extra["formatted"] = string(out)
	f2, err := parser.ParseFile("out.cue", out, parser.ParseComments)
	if err != nil {
		return "output-unparsable", "the formatted file does not parse: " + err.Error(), extra, true
	}
	t1, t2 := treeString(f1), treeString(f2)
	if t1 != t2 {
		if c1, c2 := treeDump(f1, false), treeDump(f2, false); c1 != c2 {
			return "code-changed", "the formatted file parses to different declarations / expressions (comments aside):\n" + firstDiff(c1, c2), extra, true
		}
		return "tree-changed", "the formatted file parses to a syntax tree in which a comment is attached elsewhere or missing:\n" + firstDiff(t1, t2), extra, true
	}
	out2, err := format.Source(out)
	if err != nil || string(out2) != string(out) {
		extra["formatted_again"] = string(out2)
		return "not-idempotent", fmt.Sprintf("formatting the formatted file changes it again (%v)", err), extra, true
	}
	if s1, err := format.Source([]byte(src), format.Simplify()); err == nil {
		extra["simplified"] = string(s1)
		if _, perr := parser.ParseFile("s.cue", s1, parser.ParseComments); perr != nil {
			return "simplify-output-unparsable", "the simplified file does not parse: " + perr.Error(), extra, true
		} else if s2, err := format.Source(s1, format.Simplify()); err != nil || string(s2) != string(s1) {
			extra["simplified_again"] = string(s2)
			return "simplify-not-idempotent", "formatting with -s twice differs", extra, true
		}
		delete(extra, "simplified")
	}
	extra["tree"] = t1
	return "", "", extra, true
}

func init() {
	workers["fmttree"] = func(args []string) {
		b, _ := os.ReadFile(args[0])
		f, err := parser.ParseFile(args[0], b, parser.ParseComments)
		if err != nil {
			fmt.Println(err)
			return
		}
		fmt.Print(treeString(f))
	}
}

func key08(ks []string, st tlaval.State) string {
	return fmt.Sprintf("%v layout=%v comments=%v", ks, st["layout"], st["comments"])
}

func firstLines(s string, n int) string {
	l := strings.SplitN(s, "\n", n+1)
	if len(l) > n {
		l = l[:n]
	}
	return strings.Join(l, " | ")
}

type corpusFile struct {
	name, src string
}

// loadCorpus collects the CUE sources of the repository (files and the .cue
// sections of txtar archives) that parse, in a fixed order.
func loadCorpus(root string) []corpusFile {
	var out []corpusFile
	add := func(name string, b []byte) {
		if len(b) == 0 || len(b) > 64<<10 {
			return
		}
		if _, err := parser.ParseFile(name, b, parser.ParseComments); err != nil {
			return
		}
		out = append(out, corpusFile{name, string(b)})
	}
	filepath.WalkDir(root, func(p string, d os.DirEntry, err error) error {
		if err != nil {
			return nil
		}
		if d.IsDir() {
			if d.Name() == ".git" {
				return filepath.SkipDir
			}
			return nil
		}
		rel, _ := filepath.Rel(root, p)
		switch {
		case strings.HasSuffix(p, ".cue"):
			b, _ := os.ReadFile(p)
			add(rel, b)
		case strings.HasSuffix(p, ".txtar"):
			b, err := os.ReadFile(p)
			if err != nil {
				return nil
			}
			for _, f := range txtar.Parse(b).Files {
				if strings.HasSuffix(f.Name, ".cue") {
					add(rel+":"+f.Name, f.Data)
				}
			}
		}
		return nil
	})
	sort.Slice(out, func(i, j int) bool { return out[i].name < out[j].name })
	return out
}

// mutateAtToken applies a whitespace / comment mutation at the token boundary
// at/20 of the way through src.
func mutateAtToken(src, op string, at int) (out, context string) {
	if op == "none" {
		return src, ""
	}
	var offs []int // offsets where a token starts
	var toks []token.Token
	var sc scanner.Scanner
	f := token.NewFile("m.cue", -1, len(src))
	sc.Init(f, []byte(src), func(token.Pos, string, []interface{}) {}, scanner.ScanComments)
	for {
		pos, tok, _ := sc.Scan()
		if tok == token.EOF {
			break
		}
		if pos.IsValid() && tok != token.COMMA || (tok == token.COMMA && pos.Offset() < len(src) && src[pos.Offset()] == ',') {
			offs = append(offs, pos.Offset())
			toks = append(toks, tok)
		}
	}
	if len(offs) < 2 {
		return src, ""
	}
	ti := 1 + (at*(len(offs)-1))/20%(len(offs)-1)
	o := offs[ti]
	context = fmt.Sprintf("after %s before %s", toks[ti-1], toks[ti])
	out = mutateAt(src, op, o)
	return out, context
}

func mutateAt(src, op string, o int) string {
	switch op {
	case "newline":
		return src[:o] + "\n" + src[o:]
	case "blank-line":
		return src[:o] + "\n\n" + src[o:]
	case "line-comment":
		return src[:o] + "\n// m\n" + src[o:]
	case "eol-comment":
		return src[:o] + " // m\n" + src[o:]
	case "doc-comment-before":
		return src[:o] + "// m\n" + src[o:]
	case "strip-space":
		j := o
		for j > 0 && (src[j-1] == ' ' || src[j-1] == '\t') {
			j--
		}
		return src[:j] + src[o:]
	case "comma":
		return src[:o] + ", " + src[o:]
	case "tab":
		return src[:o] + "\t  " + src[o:]
	case "paren":
		// parenthesise the token when it is a simple operand
		e := o
		for e < len(src) && (src[e] == '_' || src[e] >= '0' && src[e] <= '9' || src[e] >= 'a' && src[e] <= 'z' || src[e] >= 'A' && src[e] <= 'Z') {
			e++
		}
		if e > o {
			return src[:o] + "(" + src[o:e] + ")" + src[e:]
		}
	}
	return src
}

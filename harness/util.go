package main

import (
	"cuelang.org/go/cue"
	"runtime"
	"strconv"
	"strings"
)

// goid returns the current goroutine's id (used only to attribute hook
// events to actors).
func goid() int64 {
	var buf [64]byte
	n := runtime.Stack(buf[:], false)
	s := strings.TrimPrefix(string(buf[:n]), "goroutine ")
	i := strings.IndexByte(s, ' ')
	id, _ := strconv.ParseInt(s[:i], 10, 64)
	return id
}

func cuePath(s string) cue.Path { return cue.ParsePath(s) }

package main

import (
	"fmt"
	"math/big"
	"regexp"
	"strconv"
	"strings"
	"time"

	"cuelang.org/go/cue"
	"cuelang.org/go/verifharness/kit"
	"cuelang.org/go/verifharness/tlaval"
)

// latAtom is an atom of CueLattice.tla: numbers are scaled by 4.
type latAtom struct {
	K string
	N int
	S string
}

type latCon struct {
	Op string
	K  string
	N  int
	S  string
}

type latTables struct {
	Atoms    []latAtom
	Alphabet []latCon
	StrOrd   []string
	Matches  map[[2]string]bool
	Patterns map[string]bool
}

func quarter(n int) string {
	neg := n < 0
	if neg {
		n = -n
	}
	s := strconv.Itoa(n/4) + [...]string{".0", ".25", ".5", ".75"}[n%4]
	if neg {
		s = "-" + s
	}
	return s
}

func (a latAtom) CUE() string {
	switch a.K {
	case "int":
		if a.N%4 != 0 {
			panic("non-integral int atom")
		}
		return strconv.Itoa(a.N / 4)
	case "float":
		// large floats are spelled with an exponent (few coefficient digits, large magnitude)
		if abs := a.N / 4; a.N%4 == 0 && (abs >= 500 || abs <= -500) {
			neg := ""
			if abs < 0 {
				neg, abs = "-", -abs
			}
			e := 0
			for abs%10 == 0 {
				abs /= 10
				e++
			}
			return fmt.Sprintf("%s%de%d", neg, abs, e)
		}
		return quarter(a.N)
	case "string":
		return strconv.Quote(a.S)
	case "bytes":
		return "'" + a.S + "'"
	case "bool":
		if a.N == 1 {
			return "true"
		}
		return "false"
	case "null":
		return "null"
	}
	panic("bad atom kind " + a.K)
}

var latOps = map[string]string{"lt": "<", "le": "<=", "gt": ">", "ge": ">=", "ne": "!="}

func (c latCon) CUE() string {
	switch c.Op {
	case "top":
		return "_"
	case "type", "range":
		return c.K
	case "atom":
		return latAtom{c.K, c.N, c.S}.CUE()
	case "match":
		return "=~" + strconv.Quote(c.S)
	case "nmatch":
		return "!~" + strconv.Quote(c.S)
	}
	if op, ok := latOps[c.Op]; ok {
		a := latAtom{c.K, c.N, c.S}.CUE()
		if strings.HasPrefix(a, "-") {
			return op + " " + a // `<-1` would lex as the arrow token
		}
		return op + a
	}
	panic("bad constraint op " + c.Op)
}

func recAtom(v tlaval.Value) latAtom {
	r := tlaval.AsRec(v)
	return latAtom{tlaval.AsStr(r["k"]), tlaval.AsInt(r["n"]), tlaval.AsStr(r["s"])}
}

// loadLatticeTables runs the Tables configuration of CueLattice.tla.
func loadLatticeTables(r *kit.Run) *latTables {
	res, err := kit.RunTLC(kit.TLCOpts{Module: "CueLattice", Cfg: "CueLattice_tables.cfg", Dump: true, Workers: 1, Timeout: 2 * time.Minute})
	defer res.Cleanup()
	if err != nil || !res.OK() {
		r.Fatal("CueLattice tables: %v\n%s", err, res.Tail(30))
	}
	t := &latTables{Matches: map[[2]string]bool{}, Patterns: map[string]bool{}}
	_, err = kit.ForEachState(res.DumpPath, nil, 1, func(_ int, st tlaval.State) {
		rec := tlaval.AsRec(st["den"])
		for _, a := range tlaval.AsSeq(rec["atoms"]) {
			t.Atoms = append(t.Atoms, recAtom(a))
		}
		for _, c := range tlaval.AsSeq(rec["alphabet"]) {
			cr := tlaval.AsRec(c)
			t.Alphabet = append(t.Alphabet, latCon{tlaval.AsStr(cr["op"]), tlaval.AsStr(cr["k"]), tlaval.AsInt(cr["n"]), tlaval.AsStr(cr["s"])})
		}
		for _, s := range tlaval.AsSeq(rec["strord"]) {
			t.StrOrd = append(t.StrOrd, tlaval.AsStr(s))
		}
		for _, m := range tlaval.AsSet(rec["matches"]) {
			p := tlaval.AsSeq(m)
			t.Matches[[2]string{tlaval.AsStr(p[0]), tlaval.AsStr(p[1])}] = true
		}
	})
	if err != nil {
		r.Fatal("CueLattice tables: %v", err)
	}
	for _, c := range t.Alphabet {
		if c.Op == "match" || c.Op == "nmatch" {
			t.Patterns[c.S] = true
		}
	}
	// The spec's constant tables must agree with the real regexp engine and
	// with bytewise string order; otherwise the model (not the code) is wrong.
	for p := range t.Patterns {
		re := regexp.MustCompile(p)
		for _, s := range t.StrOrd {
			if re.MatchString(s) != t.Matches[[2]string{p, s}] {
				r.Fatal("CueLattice match table disagrees with Go regexp on %q =~ %q", s, p)
			}
		}
	}
	for i := 1; i < len(t.StrOrd); i++ {
		if !(t.StrOrd[i-1] < t.StrOrd[i]) {
			r.Fatal("CueLattice StrOrd not in bytewise order")
		}
	}
	if len(t.Atoms) == 0 || len(t.Alphabet) == 0 {
		r.Fatal("CueLattice tables empty")
	}
	return t
}

// atomOfValue projects a concrete scalar cue.Value to a lattice atom.
// ok=false when the value is not a concrete scalar.
func atomOfValue(v cue.Value) (a latAtom, exact bool, ok bool) {
	if v.Err() != nil || !v.IsConcrete() {
		return a, false, false
	}
	switch v.Kind() {
	case cue.IntKind:
		var z big.Int
		if _, err := v.Int(&z); err != nil {
			return a, false, false
		}
		if !z.IsInt64() || z.Int64() > 1<<20 || z.Int64() < -(1<<20) {
			return latAtom{K: "int"}, false, true
		}
		return latAtom{K: "int", N: int(z.Int64()) * 4}, true, true
	case cue.FloatKind:
		f, err := v.Float64()
		if err != nil {
			return a, false, false
		}
		q := f * 4
		if q != float64(int(q)) {
			return latAtom{K: "float"}, false, true
		}
		// exactness: re-render and compare the decimal text numerically
		txt := fmt.Sprint(v)
		br, ok2 := new(big.Rat).SetString(txt)
		if !ok2 || br.Cmp(big.NewRat(int64(q), 4)) != 0 {
			return latAtom{K: "float"}, false, true
		}
		return latAtom{K: "float", N: int(q)}, true, true
	case cue.StringKind:
		s, err := v.String()
		if err != nil {
			return a, false, false
		}
		return latAtom{K: "string", S: s}, true, true
	case cue.BytesKind:
		b, err := v.Bytes()
		if err != nil {
			return a, false, false
		}
		return latAtom{K: "bytes", S: string(b)}, true, true
	case cue.BoolKind:
		b, _ := v.Bool()
		n := 0
		if b {
			n = 1
		}
		return latAtom{K: "bool", N: n}, true, true
	case cue.NullKind:
		return latAtom{K: "null"}, true, true
	}
	return a, false, false
}

func conjText(t *latTables, cs []int) string {
	parts := make([]string, len(cs))
	for i, c := range cs {
		parts[i] = t.Alphabet[c-1].CUE()
	}
	if len(parts) == 0 {
		return "_"
	}
	return strings.Join(parts, " & ")
}

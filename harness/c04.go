package main

import (
	"fmt"
	"os"
	"path/filepath"
	"sort"
	"strings"
	"sync"
	"sync/atomic"
	"time"

	"cuelang.org/go/cue"
	"cuelang.org/go/cue/cuecontext"
	"cuelang.org/go/verifharness/kit"
	"cuelang.org/go/verifharness/tlaval"
)

func init() { register("C04", "model_checking", checkC04) }

var c04LeafText = []string{"1", "2", `"a"`, "int", "string", ">1", "{a: 1}", "{a: 2}", "{a: int}", "{b: 1}"}
var c04ProbeText = []string{"1", "2", "3", `"a"`, "{a: 1}", "{a: 2}", "{b: 1}", "{a: 1, b: 1}"}

var dbgMu sync.Mutex

type c04Outcome struct {
	o, c  string
	clear bool
}

// c04Render writes the conjunction; group selects how a three-alternative
// disjunction is parenthesised: 0 flat, 1 ((a | b) | c), 2 (a | (b | c)).
func c04Render(ds []tlaval.Value, group int) string {
	var parts []string
	for _, d := range ds {
		var alts []string
		for _, a := range tlaval.AsSeq(d) {
			r := tlaval.AsRec(a)
			t := c04LeafText[tlaval.AsInt(r["leaf"])-1]
			if tlaval.AsBool(r["mark"]) {
				t = "*" + t
			}
			alts = append(alts, t)
		}
		// nesting keeps the meaning only while the outer disjunction stays unmarked (D0-D2); with a
		// mark on the outer level the rules M2/M3 apply and the nested form means something else
		marked := func(i int) bool { return strings.HasPrefix(alts[i], "*") }
		switch {
		case len(alts) == 3 && group == 1 && marked(2), len(alts) == 3 && group == 2 && marked(0):
			parts = append(parts, "("+strings.Join(alts, " | ")+")")
		case len(alts) == 3 && group == 1:
			parts = append(parts, "(("+alts[0]+" | "+alts[1]+") | "+alts[2]+")")
		case len(alts) == 3 && group == 2:
			parts = append(parts, "("+alts[0]+" | ("+alts[1]+" | "+alts[2]+"))")
		default:
			parts = append(parts, "("+strings.Join(alts, " | ")+")")
		}
	}
	return strings.Join(parts, " & ")
}

// c04Canon renders a concrete cue value in the model's code syntax.
func c04Canon(v cue.Value) (string, bool) {
	switch v.IncompleteKind() {
	case cue.StructKind:
		fa, fb := "-", "-"
		it, err := v.Fields()
		if err != nil {
			return "", false
		}
		for it.Next() {
			a, _, ok := atomOfValue(it.Value())
			if !ok || a.K != "int" {
				return "", false
			}
			switch it.Selector().String() {
			case "a":
				fa = fmt.Sprint(a.N / 4)
			case "b":
				fb = fmt.Sprint(a.N / 4)
			default:
				return "", false
			}
		}
		return "st:" + fa + "," + fb, true
	}
	a, exact, ok := atomOfValue(v)
	if !ok || !exact {
		return "", false
	}
	switch a.K {
	case "int":
		return fmt.Sprintf("atom:{\"%d\"}", a.N/4), true
	case "string":
		return fmt.Sprintf("atom:{\"s%s\"}", a.S), true
	}
	return "", false
}

// c04Compare checks one evaluated field against the model's outcome.
func c04Compare(v cue.Value, want c04Outcome) string {
	isBottom := v.Err() != nil
	concErr := v.Validate(cue.Concrete(true))
	switch want.o {
	case "bottom":
		if !isBottom {
			return fmt.Sprintf("evaluates to %v, the value/default-pair rules leave no disjunct", v)
		}
		return ""
	case "ambiguous":
		if isBottom {
			return fmt.Sprintf("evaluates to bottom (%v), the rules leave several disjuncts (ambiguous)", v.Err())
		}
		if concErr == nil {
			return fmt.Sprintf("silently resolves to %v although the rules leave an ambiguous choice", v)
		}
		return ""
	case "unique":
		if isBottom {
			return fmt.Sprintf("evaluates to bottom (%v), the rules resolve to %s", v.Err(), want.c)
		}
		concreteModel := strings.HasPrefix(want.c, "atom:") || (strings.HasPrefix(want.c, "st:") && !strings.Contains(want.c, "int"))
		pinned := strings.HasPrefix(want.c, "sc:{") && strings.Count(want.c, "\"") == 2 // non-concrete value admitting one atom
		if concreteModel {
			if concErr != nil {
				return fmt.Sprintf("does not resolve to a concrete value (%v), the rules resolve to %s", concErr, want.c)
			}
			d, _ := v.Default()
			got, ok := c04Canon(d)
			if !ok || got != want.c {
				return fmt.Sprintf("resolves to %v, the rules resolve to %s", d, want.c)
			}
			return ""
		}
		if pinned {
			return "" // the evaluator may or may not report the pinned atom
		}
		if concErr == nil {
			return fmt.Sprintf("resolves to the concrete value %v, the rules resolve to the non-concrete %s", v, want.c)
		}
		return ""
	}
	return "unknown model outcome " + want.o
}

func checkC04(r *kit.Run) {
	r.Assumptions = []string{
		"leaves: 1, 2, \"a\", int, string, >1 and the open structs {a:1} {a:2} {a:int} {b:1}; marks only on top-level disjuncts; probes 1 2 3 \"a\" {a:1} {a:2} {b:1} {a:1,b:1}",
		"disjuncts are identified by (admitted probe atoms, concreteness) resp. by their fields; a non-concrete disjunct admitting exactly one atom may be reported as that atom or left incomplete (C03/C04 allow both)",
	}
	cfgs := []string{"CueDisj_quick.cfg"}
	if r.Thorough() {
		cfgs = append(cfgs, "CueDisj_thorough.cfg")
	} else {
		cfgs = append(cfgs, "CueDisj_deep.cfg")
	}
	var total, nontrivial, checked, canaries, caught, unclear int64
	for _, cfg := range cfgs {
		cfgText, rerr := os.ReadFile(filepath.Join(kit.VerifDir(), "spec", cfg))
		if rerr != nil {
			r.Fatal("%v", rerr)
		}
		res, err := kit.RunTLC(kit.TLCOpts{Module: "CueDisj", CfgText: strings.Replace(string(cfgText), "Seed = 1", fmt.Sprintf("Seed = %d", r.Seed), 1), Dump: true, Timeout: 40 * time.Minute, Heap: "24g"})
		if err != nil || res.TimedOut || !res.OK() {
			out := res.Tail(40)
			res.Cleanup()
			r.Fatal("CueDisj model %s failed (design level): %v %s\n%s", cfg, err, res.Violation, out)
		}
		r.AddTLC(cfg, res)
		ctxs := make([]*cue.Context, 16)
		counts := make([]int, 16)
		n, err := kit.ForEachState(res.DumpPath, nil, 16, func(w int, st tlaval.State) {
			ds := tlaval.AsSeq(st["ds"])
			if len(ds) == 0 {
				return
			}
			if ctxs[w] == nil || counts[w]%300 == 0 {
				ctxs[w] = cuecontext.New()
			}
			counts[w]++
			groups := 1
			for _, d := range ds {
				if len(tlaval.AsSeq(d)) == 3 {
					groups = 3
				}
			}
			flatBad := map[int]bool{}
			for group := 0; group < groups; group++ {
				c04One(r, ctxs[w], st, ds, group, flatBad, counts[w], &unclear, &checked, &nontrivial, &canaries, &caught)
			}
		})
		res.Cleanup()
		if err != nil {
			r.Fatal("CueDisj dump: %v", err)
		}
		total += int64(n)
	}
	if (canaries == 0 && r.Violations() == 0) || caught != canaries {
		r.Fatal("canary: %d of %d corrupted expectations noticed", caught, canaries)
	}
	c04Finish(r, total, checked, nontrivial, unclear, caught)
}

func c04One(r *kit.Run, ctx *cue.Context, st tlaval.State, ds []tlaval.Value, group int, flatBad map[int]bool, count int, unclear, checked, nontrivial, canaries, caught *int64) {
	{
		{
			expr := c04Render(ds, group)
			// a disagreement that only shows when a three-alternative disjunction is written with
			// nested parentheses is a defect of its own class
			report := func(idx int, key, msg string, rep map[string]any) {
				if group == 0 {
					flatBad[idx] = true
					// three operands: if another order of the same operands agrees with the rules,
					// the defect is the evaluator's dependence on operand order
					if flatBad[-100] {
						key = "class three-operand-order-dependent-default"
						msg = expr + ": " + msg
					} else if idx == -1 && len(ds) == 3 {
						for _, perm := range [][]int{{0, 2, 1}, {1, 0, 2}, {1, 2, 0}, {2, 0, 1}, {2, 1, 0}} {
							pds := []tlaval.Value{ds[perm[0]], ds[perm[1]], ds[perm[2]]}
							pv := ctx.CompileString("x: " + c04Render(pds, 0)).LookupPath(cue.ParsePath("x"))
							if pv.Exists() && c04Compare(pv, c04Outcome{tlaval.AsStr(tlaval.AsRec(st["res"])["o"]), tlaval.AsStr(tlaval.AsRec(st["res"])["c"]), true}) == "" {
								rep["order_that_agrees"] = c04Render(pds, 0)
								key = "class three-operand-order-dependent-default"
								msg = expr + ": " + msg
								flatBad[-100] = true
								break
							}
						}
					}
				} else if flatBad[idx] {
					return // the flat form fails too: the same defect, already reported
				} else {
					rep["flat_form_agrees_with_the_rules"] = true
					key = "class nested-disjunction-default"
					if f := os.Getenv("VERIF_DEBUG_C04"); f != "" {
						dbgMu.Lock()
						if fh, err := os.OpenFile(f, os.O_APPEND|os.O_CREATE|os.O_WRONLY, 0o644); err == nil {
							fmt.Fprintf(fh, "%s ## %d :: %s\n", expr, idx, msg)
							fh.Close()
						}
						dbgMu.Unlock()
					}
					r.Add("nested_form_disagreements", 1)
					msg = expr + ": " + msg
				}
				r.Violation(key, msg, rep)
			}
			var b strings.Builder
			fmt.Fprintf(&b, "x: %s\n", expr)
			for i, p := range c04ProbeText {
				// probe on either side
				if i%2 == 0 {
					fmt.Fprintf(&b, "p%d: %s & %s\n", i+1, expr, p)
				} else {
					fmt.Fprintf(&b, "p%d: %s & %s\n", i+1, p, expr)
				}
			}
			v := ctx.CompileString(b.String())
			outcome := func(x tlaval.Value) c04Outcome {
				rec := tlaval.AsRec(x)
				return c04Outcome{tlaval.AsStr(rec["o"]), tlaval.AsStr(rec["c"]), tlaval.AsBool(rec["clear"])}
			}
			want := outcome(st["res"])
			x := v.LookupPath(cue.ParsePath("x"))
			if !x.Exists() {
				r.Violation("compile "+expr, fmt.Sprintf("expression does not compile: %v", v.Err()), map[string]any{"expr": expr})
				return
			}
			if !want.clear {
				atomic.AddInt64(unclear, 1)
			} else if msg := c04Compare(x, want); msg != "" {
				report(-1, expr, msg, map[string]any{"expr": expr, "model": want.o + " " + want.c})
			}
			pres := tlaval.AsSeq(st["pres"])
			for i := range c04ProbeText {
				pw := outcome(pres[i])
				pv := v.LookupPath(cue.ParsePath(fmt.Sprintf("p%d", i+1)))
				if !pw.clear {
					atomic.AddInt64(unclear, 1)
				} else if msg := c04Compare(pv, pw); msg != "" {
					report(i, expr+" ## "+c04ProbeText[i], msg, map[string]any{"expr": expr, "probe": c04ProbeText[i], "model": pw.o + " " + pw.c})
				}
			}
			atomic.AddInt64(checked, int64(1+len(c04ProbeText)))
			if want.o != "bottom" && len(ds) > 1 {
				atomic.AddInt64(nontrivial, 1)
			}
			concreteWant := want.o == "bottom" || (want.o == "unique" && (strings.HasPrefix(want.c, "atom:") || (strings.HasPrefix(want.c, "st:") && !strings.Contains(want.c, "int"))))
			if count%1000 == 1 && group == 0 && want.clear && concreteWant {
				r.Sample(map[string]any{"expr": expr, "model": want.o + " " + want.c})
				// canary: a different expected outcome must be noticed
				bad := want
				switch want.o {
				case "unique":
					bad.o = "ambiguous"
				default:
					bad.o, bad.c = "unique", "atom:{\"3\"}"
				}
				atomic.AddInt64(canaries, 1)
				if c04Compare(x, bad) != "" {
					atomic.AddInt64(caught, 1)
				}
			}
		}
	}
}

func c04Finish(r *kit.Run, total, checked, nontrivial, unclear, caught int64) {
	_ = sort.Strings
	r.Set("traces_validated_against_impl", int(total))
	r.Set("evaluations", int(checked))
	r.Set("distinct_nontrivial", int(nontrivial))
	r.Set("canaries_rejected", int(caught))
	r.Set("exhaustive", true)
	r.Set("grouping_dependent_outcomes_skipped", int(unclear))
	r.Set("rule", "every expression D1 & D2 with disjunctions of <= 2 alternatives over 10 leaves and all mark patterns (exhaustive), plus a seeded sample of expressions with 3 operands and up to 3 alternatives (TLC RandomSubset); each state carries the spec's value/default pair outcome for the expression and for its unification with 8 concrete probes; every outcome is compared with the real evaluator (bottom / ambiguous => incomplete error, never a silently chosen value / unique concrete value equal); non-trivial = not bottom and at least two operands")
}

package main

import (
	"context"
	"encoding/json"
	"fmt"
	"math/rand"
	"sort"
	"strings"
	"sync"
	"sync/atomic"
	"time"

	"cuelang.org/go/internal/mod/modrequirements"
	"cuelang.org/go/internal/mod/mvs"
	"cuelang.org/go/internal/mod/semver"
	"cuelang.org/go/internal/verifhook"
	"cuelang.org/go/mod/modfile"
	"cuelang.org/go/mod/module"
	"cuelang.org/go/verifharness/kit"
	"cuelang.org/go/verifharness/tlaval"
)

func init() { register("C14", "model_checking", checkC14) }

// ---------------------------------------------------------------- semver

type svVersion struct {
	core [3]int
	pre  []svIdent
	rank int
}
type svIdent struct {
	num bool
	n   int
	s   string
}

func (v svVersion) text(build string) string {
	s := fmt.Sprintf("v%d.%d.%d", v.core[0], v.core[1], v.core[2])
	if len(v.pre) > 0 {
		var ids []string
		for _, id := range v.pre {
			if id.num {
				ids = append(ids, fmt.Sprint(id.n))
			} else {
				ids = append(ids, id.s)
			}
		}
		s += "-" + strings.Join(ids, ".")
	}
	return s + build
}

func sign(x int) int {
	switch {
	case x < 0:
		return -1
	case x > 0:
		return 1
	}
	return 0
}

func c14Semver(r *kit.Run) {
	res, err := kit.RunTLC(kit.TLCOpts{Module: "Semver", Cfg: "Semver.cfg", Dump: true, Timeout: 20 * time.Minute})
	defer res.Cleanup()
	if err != nil || res.TimedOut || !res.OK() {
		r.Fatal("Semver model failed (design level): %v %s\n%s", err, res.Violation, res.Tail(40))
	}
	r.AddTLC("Semver.cfg", res)
	var vs []svVersion
	var mu sync.Mutex
	_, err = kit.ForEachState(res.DumpPath, nil, 4, func(_ int, st tlaval.State) {
		rec := tlaval.AsRec(st["ver"])
		var v svVersion
		for i, c := range tlaval.IntSeq(rec["core"]) {
			v.core[i] = c
		}
		for _, id := range tlaval.AsSeq(rec["pre"]) {
			ir := tlaval.AsRec(id)
			v.pre = append(v.pre, svIdent{tlaval.AsBool(ir["num"]), tlaval.AsInt(ir["n"]), tlaval.AsStr(ir["s"])})
		}
		v.rank = tlaval.AsInt(st["rank"])
		mu.Lock()
		vs = append(vs, v)
		mu.Unlock()
	})
	if err != nil || len(vs) != res.Distinct {
		r.Fatal("semver dump: %v (%d of %d)", err, len(vs), res.Distinct)
	}
	sort.Slice(vs, func(i, j int) bool { return vs[i].text("") < vs[j].text("") })
	// the spec's ASCII table must be ASCII order
	al := []string{"-", "0a", "1-", "A", "Z", "a", "a1", "aa"}
	for i := 1; i < len(al); i++ {
		if !(al[i-1] < al[i]) {
			r.Fatal("Semver.tla AlOrd is not in ASCII order")
		}
	}
	builds := []string{"", "+b", "+001.x-y"}
	var pairs, bad int64
	canary := int64(0)
	kit.ParallelN(len(vs), 16, func(_, i int) {
		v := vs[i]
		for j, w := range vs {
			want := sign(v.rank - w.rank)
			bv, bw := builds[(i+j)%3], builds[(i*7+j)%3]
			a, b := v.text(bv), w.text(bw)
			got := semver.Compare(a, b)
			atomic.AddInt64(&pairs, 1)
			if got != want {
				atomic.AddInt64(&bad, 1)
				r.Violation("semver.Compare "+a+" "+b, fmt.Sprintf("semver.Compare(%q, %q) = %d, SemVer 2.0 precedence says %d", a, b, got, want), map[string]any{"v": a, "w": b, "got": got, "want": want})
			}
			// canary: the comparison must notice a flipped expectation
			if i == 0 && j == len(vs)-1 && got == -want && want != 0 {
				atomic.AddInt64(&canary, 1)
			}
			// module.Versions.Max and the "" / "none" special cases
			mx := module.Versions{}.Max(a, b)
			wantMax := b
			if want > 0 {
				wantMax = a
			}
			if want != 0 && mx != wantMax {
				r.Violation("Versions.Max "+a+" "+b, fmt.Sprintf("Max(%q, %q) = %q, want %q", a, b, mx, wantMax), map[string]any{"v": a, "w": b})
			}
		}
		a := v.text(builds[i%3])
		if module.Versions.Max(module.Versions{}, a, "none") != a || module.Versions.Max(module.Versions{}, "none", a) != a {
			r.Violation("Versions.Max none "+a, "Max(v, none) must be v", map[string]any{"v": a})
		}
		if module.Versions.Max(module.Versions{}, a, "") != "" || module.Versions.Max(module.Versions{}, "", a) != "" {
			r.Violation("Versions.Max main "+a, "the main module's version \"\" must be the maximum", map[string]any{"v": a})
		}
		if !semver.IsValid(a) {
			r.Violation("semver.IsValid "+a, "valid version rejected", map[string]any{"v": a})
		}
		if c := semver.Canonical(a); c != v.text("") {
			r.Violation("semver.Canonical "+a, fmt.Sprintf("Canonical(%q) = %q, want %q (build metadata dropped)", a, c, v.text("")), map[string]any{"v": a})
		}
		// near-valid spellings must be invalid and therefore compare below every valid version
		base := v.text("")
		for _, inv := range []string{strings.TrimPrefix(base, "v"), strings.Replace(base, ".", ".0", 1), base + "-", base + "-a..b", base + "-01", base + "+", "v" + base, base + "-a_b"} {
			if inv == base {
				continue
			}
			if strings.Contains(base, "-") && (inv == base+"-" || inv == base+"-a..b" || inv == base+"-01" || inv == base+"-a_b") {
				// appended to a pre-release these are different (some valid) spellings
				continue
			}
			if semver.IsValid(inv) {
				r.Violation("semver.IsValid "+inv, "malformed version accepted", map[string]any{"v": inv})
			}
			if semver.Compare(inv, base) != -1 {
				r.Violation("semver.Compare invalid "+inv, "an invalid version must compare below a valid one", map[string]any{"v": inv, "w": base})
			}
		}
	})
	r.Add("semver_pairs", int(pairs))
	r.Sample(map[string]any{"semver_pair": []string{vs[3].text("+b"), vs[len(vs)/2].text("")}, "spec_ranks": []int{vs[3].rank, vs[len(vs)/2].rank}})
}

// ---------------------------------------------------------------- mvs

var mvsVersions = []string{"", "v0.1.0-alpha.1", "v0.1.0", "v0.2.0", "v0.10.0"} // index = spec version (1..4), increasing precedence

type mvsNode struct{ m, v int }

func (n mvsNode) version() module.Version {
	path := fmt.Sprintf("m%d.test@v0", n.m)
	if n.v == 0 {
		return module.MustNewVersion(path, "")
	}
	return module.MustNewVersion(path, mvsVersions[n.v])
}

type mvsGraph struct {
	M, V  int
	Req   map[mvsNode][]mvsNode
	Want  []int // per module (index m-1): rank (V+1 for the target's own version) or -1
	Want1 []int // the same for the pruned graph the module loader reads (roots and their requirements)
}

func (g *mvsGraph) key() string {
	var parts []string
	for n, l := range g.Req {
		if len(l) == 0 {
			continue
		}
		var ls []string
		for _, x := range l {
			ls = append(ls, fmt.Sprintf("%d.%d", x.m, x.v))
		}
		sort.Strings(ls)
		parts = append(parts, fmt.Sprintf("%d.%d>%s", n.m, n.v, strings.Join(ls, ",")))
	}
	sort.Strings(parts)
	return fmt.Sprintf("M%dV%d:%s", g.M, g.V, strings.Join(parts, ";"))
}

type mvsReqs struct {
	module.Versions
	req   map[module.Version][]module.Version
	delay func()
	calls sync.Map
	dup   atomic.Int64
}

func (r *mvsReqs) Required(m module.Version) ([]module.Version, error) {
	if _, loaded := r.calls.LoadOrStore(m, true); loaded {
		r.dup.Add(1)
	}
	if r.delay != nil {
		r.delay()
	}
	return r.req[m], nil
}

func (g *mvsGraph) reqs(rng *rand.Rand, latency time.Duration) *mvsReqs {
	r := &mvsReqs{req: map[module.Version][]module.Version{}}
	for n, l := range g.Req {
		var out []module.Version
		for _, x := range l {
			out = append(out, x.version())
		}
		rng.Shuffle(len(out), func(i, j int) { out[i], out[j] = out[j], out[i] })
		r.req[n.version()] = out
	}
	if latency > 0 {
		var mu sync.Mutex
		r.delay = func() {
			mu.Lock()
			d := time.Duration(rng.Int63n(int64(latency)))
			mu.Unlock()
			time.Sleep(d)
		}
	}
	return r
}

func (g *mvsGraph) wantList() map[string]string {
	out := map[string]string{}
	for m := 1; m <= g.M; m++ {
		w := g.Want[m-1]
		if w < 0 {
			continue
		}
		if w == g.V+1 {
			out[fmt.Sprintf("m%d.test@v0", m)] = ""
		} else {
			out[fmt.Sprintf("m%d.test@v0", m)] = mvsVersions[w]
		}
	}
	return out
}

// mvsModFiles serves the graph's requirement lists as module files.
type mvsModFiles struct {
	g     *mvsGraph
	delay func()
}

func (m *mvsModFiles) ModFile(ctx context.Context, mv module.Version) (*modfile.File, error) {
	if m.delay != nil {
		m.delay()
	}
	var b strings.Builder
	fmt.Fprintf(&b, "module: %q\nlanguage: version: \"v0.9.0\"\n", mv.Path())
	for n, l := range m.g.Req {
		if n.version() != mv || len(l) == 0 {
			continue
		}
		// a module file names one version per module: the list's maximum, as `cue mod` writes it
		best := map[int]int{}
		for _, x := range l {
			if x.v > best[x.m] {
				best[x.m] = x.v
			}
		}
		b.WriteString("deps: {\n")
		for mm, vv := range best {
			fmt.Fprintf(&b, "\t%q: v: %q\n", fmt.Sprintf("m%d.test@v0", mm), mvsVersions[vv])
		}
		b.WriteString("}\n")
	}
	return modfile.Parse([]byte(b.String()), "module.cue")
}

// mvsCheckLoader runs the module loader's graph reader (modrequirements) with the main module's
// requirement list as roots - several versions of one module may be listed - and compares its
// build list with the pruned selection of Mvs.tla.
func mvsCheckLoader(r *kit.Run, g *mvsGraph, rng *rand.Rand, latency time.Duration) {
	var roots []module.Version
	for _, x := range g.Req[mvsNode{1, 0}] {
		roots = append(roots, x.version())
	}
	module.Sort(roots)
	// a module file cannot list two versions of one module: the pruned expectation uses the maximum per list
	reg := &mvsModFiles{g: g}
	if latency > 0 {
		var mu sync.Mutex
		reg.delay = func() {
			mu.Lock()
			d := time.Duration(rng.Int63n(int64(latency)))
			mu.Unlock()
			time.Sleep(d)
		}
	}
	rs := modrequirements.NewRequirements("m1.test@v0", reg, roots, nil)
	mg, err := rs.Graph(context.Background())
	if err != nil {
		r.Violation("loader graph "+g.key(), "modrequirements.Graph: "+err.Error(), map[string]any{"graph": g.key()})
		return
	}
	got := map[string]string{}
	for _, m := range mg.BuildList() {
		got[m.Path()] = m.Version()
	}
	want := map[string]string{}
	for m := 1; m <= g.M; m++ {
		w := g.Want1[m-1]
		switch {
		case w < 0:
		case w == g.V+1:
			want[fmt.Sprintf("m%d.test@v0", m)] = ""
		default:
			want[fmt.Sprintf("m%d.test@v0", m)] = mvsVersions[w]
		}
	}
	if fmt.Sprint(got) != fmt.Sprint(want) {
		r.Violation("loader build list "+g.key(), fmt.Sprintf("the module loader's pruned graph selects %v for roots %v, the maximum over the roots and their requirements is %v", got, roots, want), map[string]any{"graph": g.key(), "roots": fmt.Sprint(roots), "got": got, "want": want})
	}
}

// mvsCheckGraph runs the real BuildList (and Req) and compares with Want.
func mvsCheckGraph(r *kit.Run, g *mvsGraph, rng *rand.Rand, latency time.Duration) {
	target := mvsNode{1, 0}.version()
	want := g.wantList()
	reqs := g.reqs(rng, latency)
	list, err := mvs.BuildList([]module.Version{target}, reqs)
	if err != nil {
		r.Violation("BuildList error "+g.key(), err.Error(), map[string]any{"graph": g.key()})
		return
	}
	got := map[string]string{}
	for _, m := range list {
		if _, dup := got[m.Path()]; dup {
			r.Violation("BuildList dup "+g.key(), "module listed twice: "+m.Path(), map[string]any{"graph": g.key(), "list": fmt.Sprint(list)})
		}
		got[m.Path()] = m.Version()
	}
	if len(list) == 0 || list[0] != target {
		r.Violation("BuildList main "+g.key(), "the main module is not first in the build list", map[string]any{"graph": g.key(), "list": fmt.Sprint(list)})
	}
	if fmt.Sprint(got) != fmt.Sprint(want) {
		r.Violation("BuildList "+g.key(), fmt.Sprintf("build list %v, minimal version selection says %v", got, want), map[string]any{"graph": g.key(), "got": got, "want": want})
		return
	}
	if d := reqs.dup.Load(); d > 0 {
		r.Violation("BuildList revisit "+g.key(), fmt.Sprintf("Required called %d extra times for already visited modules", d), map[string]any{"graph": g.key()})
	}
	// Req: the minimal requirement list reproduces the same build list, and
	// dropping any one entry does not.
	reqs2 := g.reqs(rng, 0)
	min, err := mvs.Req(target, nil, reqs2)
	if err != nil {
		r.Violation("Req error "+g.key(), err.Error(), map[string]any{"graph": g.key()})
		return
	}
	build := func(rootReqs []module.Version) string {
		rr := g.reqs(rng, 0)
		rr.req[target] = rootReqs
		l, err := mvs.BuildList([]module.Version{target}, rr)
		if err != nil {
			return "error: " + err.Error()
		}
		m := map[string]string{}
		for _, x := range l {
			m[x.Path()] = x.Version()
		}
		return fmt.Sprint(m)
	}
	if b := build(min); b != fmt.Sprint(want) {
		r.Violation("Req insufficient "+g.key(), fmt.Sprintf("requirement list %v yields %v, want %v", min, b, want), map[string]any{"graph": g.key(), "req": fmt.Sprint(min)})
	}
	for i := range min {
		sub := append(append([]module.Version{}, min[:i]...), min[i+1:]...)
		if b := build(sub); b == fmt.Sprint(want) {
			r.Violation("Req not minimal "+g.key(), fmt.Sprintf("requirement list %v is not minimal: dropping %v yields the same build list", min, min[i]), map[string]any{"graph": g.key(), "req": fmt.Sprint(min)})
		}
	}
}

func mvsGraphsFromTLC(r *kit.Run, cfg string, m, v int, seed int64, sample bool) []*mvsGraph {
	res, err := kit.RunTLC(kit.TLCOpts{Module: "Mvs", Cfg: cfg, Dump: true, Seed: seed, Timeout: 40 * time.Minute, Heap: "24g"})
	defer res.Cleanup()
	if err != nil || res.TimedOut || !res.OK() {
		r.Fatal("Mvs model %s failed (design level): %v %s\n%s", cfg, err, res.Violation, res.Tail(40))
	}
	r.AddTLC(cfg, res)
	var mu sync.Mutex
	var out []*mvsGraph
	seen := map[string]bool{}
	_, err = kit.ForEachState(res.DumpPath, []string{"req", "want", "want1", "todo", "done"}, 8, func(_ int, st tlaval.State) {
		// a complete graph: exhaustive mode = terminal states; sample mode = initial states
		todo := tlaval.AsSet(st["todo"])
		done := tlaval.AsSet(st["done"])
		if sample && len(done) != 0 {
			return
		}
		if !sample && len(todo) != 0 {
			return
		}
		g := &mvsGraph{M: m, V: v, Req: map[mvsNode][]mvsNode{}}
		for k, val := range tlaval.AsMap(st["req"]) {
			_ = k
			_ = val
		}
		f, ok := st["req"].(tlaval.Fun)
		if !ok {
			panic(fmt.Sprintf("req is %T", st["req"]))
		}
		for _, p := range f {
			kk := tlaval.IntSeq(p.K)
			n := mvsNode{kk[0], kk[1]}
			for _, x := range tlaval.AsSet(p.V) {
				xx := tlaval.IntSeq(x)
				g.Req[n] = append(g.Req[n], mvsNode{xx[0], xx[1]})
			}
		}
		g.Want = tlaval.IntSeq(st["want"])
		g.Want1 = tlaval.IntSeq(st["want1"])
		k := g.key()
		mu.Lock()
		if !seen[k] {
			seen[k] = true
			out = append(out, g)
		}
		mu.Unlock()
	})
	if err != nil {
		r.Fatal("Mvs dump: %v", err)
	}
	sort.Slice(out, func(i, j int) bool { return out[i].key() < out[j].key() })
	return out
}

// ---------------------------------------------------------------- par.Work traces

type pwEvent struct {
	Ev string `json:"ev"`
	W  int    `json:"w"`
	It int    `json:"it"`
	N  int    `json:"n"`
	Wt int    `json:"wt"`
	Rn int    `json:"rn"`
}

// pwTraceBuildList runs the real BuildList with the hooks recording the
// work-set protocol. Must not run concurrently with other hooked code.
func pwTraceBuildList(g *mvsGraph, rng *rand.Rand, latency time.Duration) (ev []pwEvent, list []module.Version, err error, hung bool) {
	var mu sync.Mutex
	workers := map[int64]int{}
	items := map[module.Version]int{}
	itemOf := func(a any) int {
		mv, ok := a.(module.Version)
		if !ok {
			return 0
		}
		if id, ok := items[mv]; ok {
			return id
		}
		items[mv] = len(items) + 1
		return len(items)
	}
	exited := 0
	closed := false
	verifhook.Set(func(point string, args ...any) {
		if !strings.HasPrefix(point, "W_") && point != "MVS_Require" {
			return
		}
		id := goid()
		mu.Lock()
		defer mu.Unlock()
		if closed {
			return
		}
		w, ok := workers[id]
		if !ok {
			w = len(workers) + 1
			workers[id] = w
		}
		e := pwEvent{Ev: point, W: w}
		switch point {
		case "W_Add":
			e.It, e.N, e.Wt = itemOf(args[0]), args[1].(int), args[2].(int)
		case "W_Pick":
			e.It, e.N = itemOf(args[0]), args[1].(int)
		case "W_WaitEnter":
			e.Wt, e.Rn = args[0].(int), args[1].(int)
		case "W_Wake":
			e.Wt, e.N = args[0].(int), args[1].(int)
		case "MVS_Require":
			e.It = itemOf(args[0])
		case "W_AllDone":
			exited++
		}
		ev = append(ev, e)
	})
	defer verifhook.Set(nil)
	target := mvsNode{1, 0}.version()
	reqs := g.reqs(rng, latency)
	done := make(chan struct{})
	go func() {
		list, err = mvs.BuildList([]module.Version{target}, reqs)
		close(done)
	}()
	select {
	case <-done:
	case <-time.After(20 * time.Second):
		mu.Lock()
		closed = true
		mu.Unlock()
		return ev, nil, nil, true
	}
	// let the other runners observe the broadcast and leave
	for i := 0; i < 200; i++ {
		mu.Lock()
		n := exited
		mu.Unlock()
		if n >= 10 {
			break
		}
		time.Sleep(100 * time.Microsecond)
	}
	mu.Lock()
	closed = true
	mu.Unlock()
	// The Do caller's own first Add (the target) happens before Do: it is the
	// model's initial state. Its goroutine is runner 1.
	if len(ev) > 0 && ev[0].Ev == "W_Add" && ev[0].It == 1 {
		ev = ev[1:]
	}
	return ev, list, err, false
}

func pwCfg(w, i int) string {
	return fmt.Sprintf(`SPECIFICATION TraceSpec
CONSTANTS W = %d I = %d Lazy = TRUE
INVARIANTS AtMostOnce WaitingCount ExitOnlyWhenDrained Conservation NoLostWakeup MutexOK ReturnedDrained
CONSTRAINT Progress2
POSTCONDITION AllAccepted
CHECK_DEADLOCK FALSE
`, w, i)
}

func checkC14(r *kit.Run) {
	r.Assumptions = []string{
		"requirement graphs: every graph on 3 modules x 2 versions with one version per module per list (thorough: also older versions of the main module), plus seeded random graphs (TLC RandomSubset) on 5x3 (thorough 8x4) with several versions per list, cycles and requirements on older main-module versions",
		"versions are mapped to the semver strings v0.1.0-alpha.1 < v0.1.0 < v0.2.0 < v0.10.0; the main module has version \"\"",
		"par.Work hook events are emitted under w.mu, hence totally ordered; buildList always uses 10 runners",
	}
	rng := rand.New(rand.NewSource(r.Seed))
	c14Semver(r)

	// design: the work-set protocol
	for _, cfg := range kit.Pick(r, []string{"ParWork_quick.cfg", "ParWork_live.cfg"}, []string{"ParWork_quick.cfg", "ParWork_live.cfg", "ParWork_thorough.cfg"}) {
		res, err := kit.RunTLC(kit.TLCOpts{Module: "ParWork", Cfg: cfg, Coverage: cfg == "ParWork_quick.cfg", Timeout: 30 * time.Minute, Heap: "16g"})
		if err == nil && res.Coverage != nil {
			for a, n := range res.Coverage {
				if n == 0 {
					res.Cleanup()
					r.Fatal("ParWork model %s: action %s is never taken (vacuous configuration)", cfg, a)
				}
			}
		}
		if err != nil || res.TimedOut || !res.OK() {
			out := res.Tail(40)
			res.Cleanup()
			r.Fatal("ParWork model %s failed (design level): %v %s\n%s", cfg, err, res.Violation, out)
		}
		r.AddTLC(cfg, res)
		res.Cleanup()
	}

	// graphs
	var graphs []*mvsGraph
	graphs = append(graphs, mvsGraphsFromTLC(r, "Mvs_quick.cfg", 3, 2, 0, false)...)
	nq := len(graphs)
	graphs = append(graphs, mvsGraphsFromTLC(r, kit.Pick(r, "Mvs_sample.cfg", "Mvs_sample_big.cfg"), kit.Pick(r, 5, 6), kit.Pick(r, 3, 3), r.Seed+1000, true)...)
	if r.Thorough() {
		graphs = append(graphs, mvsGraphsFromTLC(r, "Mvs_older.cfg", 3, 2, 0, false)...)
	}
	r.Logf("requirement graphs from TLC: %d (exhaustive 3x2: %d)", len(graphs), nq)
	var nontrivial int64
	rngs := make([]*rand.Rand, 16)
	for i := range rngs {
		rngs[i] = rand.New(rand.NewSource(r.Seed*77 + int64(i)))
	}
	kit.ParallelN(len(graphs), 16, func(w, i int) {
		g := graphs[i]
		lat := time.Duration(0)
		if i%5 == 0 || len(graphs) < 2000 {
			lat = 200 * time.Microsecond
		}
		mvsCheckGraph(r, g, rngs[w], lat)
		if g.Want1 != nil {
			mvsCheckLoader(r, g, rngs[w], lat)
		}
		sel := 0
		for _, x := range g.Want {
			if x >= 0 {
				sel++
			}
		}
		if sel > 2 {
			atomic.AddInt64(&nontrivial, 1)
		}
	})
	r.Sample(map[string]any{"graph": graphs[len(graphs)/2].key(), "want": graphs[len(graphs)/2].wantList()})

	// Runner goroutines of the untraced phase may still be leaving their work
	// sets; wait until the hooks have been quiet before tracing.
	{
		var last atomic.Int64
		last.Store(time.Now().UnixNano())
		verifhook.Set(func(string, ...any) { last.Store(time.Now().UnixNano()) })
		for time.Since(time.Unix(0, last.Load())) < 50*time.Millisecond {
			time.Sleep(10 * time.Millisecond)
		}
		verifhook.Set(nil)
	}
	// traced runs of the work set (sequential: the hook handler is global)
	nTraced := kit.Pick(r, 150, 1500)
	var lines [][]byte
	var traced []*mvsGraph
	maxItems := 1
	for i := 0; i < nTraced; i++ {
		g := graphs[rng.Intn(len(graphs))]
		if len(g.Req[mvsNode{1, 0}]) == 0 && rng.Intn(4) != 0 {
			continue
		}
		lat := []time.Duration{0, 50 * time.Microsecond, 400 * time.Microsecond}[rng.Intn(3)]
		ev, list, err, hung := pwTraceBuildList(g, rng, lat)
		if hung {
			r.Violation("BuildList hang "+g.key(), "mvs.BuildList did not return within 20s (lost wake-up / deadlock in the work set)", map[string]any{"graph": g.key(), "events": ev})
			continue
		}
		if err != nil {
			r.Violation("BuildList error "+g.key(), err.Error(), map[string]any{"graph": g.key()})
			continue
		}
		got := map[string]string{}
		for _, m := range list {
			got[m.Path()] = m.Version()
		}
		if fmt.Sprint(got) != fmt.Sprint(g.wantList()) {
			r.Violation("BuildList "+g.key(), fmt.Sprintf("build list %v, minimal version selection says %v", got, g.wantList()), map[string]any{"graph": g.key()})
		}
		for _, e := range ev {
			if e.It > maxItems {
				maxItems = e.It
			}
		}
		if ev == nil {
			ev = []pwEvent{}
		}
		b, _ := json.Marshal(map[string]any{"ev": ev})
		lines = append(lines, b)
		traced = append(traced, g)
		if len(lines) == 3 {
			r.Sample(map[string]any{"graph": g.key(), "work_set_events": ev})
		}
	}
	rej, cons := kit.ValidateTraces(r, "ParWorkTrace", pwCfg(10, maxItems), lines, "par.Work", 5)
	for _, i := range rej {
		var t map[string]any
		json.Unmarshal(lines[i], &t)
		r.Violation("par.Work trace "+traced[i].key()+fmt.Sprint(" #", i), fmt.Sprintf("execution of par.Work under mvs.BuildList is not a behaviour of ParWork.tla (matched %d events)", cons[i]),
			map[string]any{"graph": traced[i].key(), "events": t["ev"], "matched_events": cons[i]})
	}
	// canaries
	caught := 0
	if len(lines) > 0 {
		var longest []pwEvent
		for _, l := range lines {
			var t struct{ Ev []pwEvent }
			json.Unmarshal(l, &t)
			if len(t.Ev) > len(longest) {
				longest = t.Ev
			}
		}
		muts := []func([]pwEvent) []pwEvent{
			func(ev []pwEvent) []pwEvent { // Do returned before the last item was picked
				out := []pwEvent{}
				moved := false
				for i, e := range ev {
					if e.Ev == "W_Pick" && !moved {
						last := true
						for _, f := range ev[i+1:] {
							if f.Ev == "W_Pick" {
								last = false
							}
						}
						if last {
							out = append(out, pwEvent{Ev: "W_Return", W: 1})
							moved = true
						}
					}
					if e.Ev != "W_Return" {
						out = append(out, e)
					}
				}
				return out
			},
			func(ev []pwEvent) []pwEvent { // an item picked twice
				out := []pwEvent{}
				for _, e := range ev {
					out = append(out, e)
					if e.Ev == "W_Pick" && len(out) == len(ev)/2 {
						out = append(out, e)
					}
				}
				for i, e := range ev {
					if e.Ev == "W_Pick" {
						out = append(append(append([]pwEvent{}, ev[:i+1]...), e), ev[i+1:]...)
						break
					}
				}
				return out
			},
			func(ev []pwEvent) []pwEvent { // the waiting counter is off by one
				out := append([]pwEvent{}, ev...)
				for i := range out {
					if out[i].Ev == "W_WaitEnter" {
						out[i].Wt++
						break
					}
				}
				return out
			},
		}
		for ci, m := range muts {
			b, _ := json.Marshal(map[string]any{"ev": m(longest)})
			rj, _ := kit.ValidateTraces(r, "ParWorkTrace", pwCfg(10, maxItems), [][]byte{b}, fmt.Sprintf("canary %d", ci), 1)
			if len(rj) == 1 {
				caught++
			}
		}
	}
	if caught != 3 {
		r.Fatal("canary: only %d of 3 corrupted par.Work traces rejected", caught)
	}
	r.Set("traces_validated_against_impl", len(lines)+len(graphs))
	r.Set("requirement_graphs", len(graphs))
	r.Set("work_set_traces", len(lines))
	r.Set("canaries_rejected", caught)
	r.Set("evaluations", len(graphs)+len(lines)+r.Get("semver_pairs"))
	r.Set("distinct_nontrivial", int(nontrivial))
	r.Set("rule", "semver: every pair of the 1099 structured versions of Semver.tla (x build-metadata variants) against the spec's precedence rank; mvs: every requirement graph TLC generated (exhaustive family + seeded RandomSubset sample), real BuildList/Req with shuffled lists and random latency vs the spec's Want; par.Work: hook traces of BuildList runs validated by TLC against ParWorkTrace.tla; non-trivial graph = selects at least 3 modules")
}

package main

import (
	"encoding/json"
	"fmt"
	"os"
	"regexp"
	"sort"
	"strings"
	"sync/atomic"
	"time"

	"cuelang.org/go/cue"
	"cuelang.org/go/cue/ast"
	"cuelang.org/go/cue/cuecontext"
	"cuelang.org/go/cue/format"
	"cuelang.org/go/encoding/jsonschema"
	"cuelang.org/go/verifharness/kit"
	"cuelang.org/go/verifharness/tlaval"
)

func init() { register("C13", "model_checking", checkC13) }

// the instance universe of JsonSchema.tla, in the same order
var jsInstances = []string{
	`null`, `true`, `false`, `-1`, `0`, `1`, `2`, `3`, `1.5`, `2.5`,
	`""`, `"a"`, `"ab"`, `"abc"`, `"b"`,
	`[]`, `[1]`, `[1,1]`, `[1,2]`, `["a"]`, `[1,"a"]`,
	`{}`, `{"a":1}`, `{"a":"a"}`, `{"b":1}`, `{"a":1,"b":2}`, `{"ab":1}`, `{"a":1,"c":"a"}`,
}

func jsNum(n int) any {
	if n%2 == 0 {
		return n / 2
	}
	return float64(n) / 2
}

// jsRender turns a schema record of the spec into a JSON-able value.
func jsRender(v tlaval.Value) any {
	r := tlaval.AsRec(v)
	k, n, s := tlaval.AsStr(r["k"]), tlaval.AsInt(r["n"]), tlaval.AsStr(r["s"])
	subs := tlaval.AsSeq(r["subs"])
	sub := func(i int) any { return jsRender(subs[i]) }
	switch k {
	case "true":
		return true
	case "false":
		return false
	case "type":
		return map[string]any{"type": s}
	case "const":
		if s == "#num" {
			return map[string]any{"const": jsNum(n)}
		}
		return map[string]any{"const": s}
	case "enum":
		return map[string]any{"enum": []any{1, "a", nil}}
	case "minimum", "maximum", "exclusiveMinimum", "exclusiveMaximum", "multipleOf":
		return map[string]any{k: jsNum(n)}
	case "minLength", "maxLength", "minProperties", "maxProperties", "minItems", "maxItems":
		return map[string]any{k: n}
	case "pattern":
		return map[string]any{"pattern": "^a"}
	case "required":
		return map[string]any{"required": []any{s}}
	case "uniqueItems":
		return map[string]any{"uniqueItems": true}
	case "propertyNames":
		if s == "pattern" {
			return map[string]any{"propertyNames": map[string]any{"pattern": "^a"}}
		}
		return map[string]any{"propertyNames": map[string]any{"maxLength": 1}}
	case "properties":
		return map[string]any{"properties": map[string]any{"a": sub(0)}}
	case "patternProperties":
		return map[string]any{"patternProperties": map[string]any{"^a": sub(0)}}
	case "additionalProperties":
		m := map[string]any{"additionalProperties": sub(0)}
		if n%2 == 1 {
			m["properties"] = map[string]any{"a": map[string]any{}}
		}
		if n >= 2 {
			m["patternProperties"] = map[string]any{"^a": map[string]any{}}
		}
		return m
	case "items", "contains", "not":
		return map[string]any{k: sub(0)}
	case "allOf", "anyOf", "oneOf":
		var a []any
		for i := range subs {
			a = append(a, sub(i))
		}
		return map[string]any{k: a}
	case "if":
		return map[string]any{"if": sub(0), "then": sub(1), "else": sub(2)}
	case "obj":
		m := map[string]any{}
		for i := range subs {
			for kk, vv := range sub(i).(map[string]any) {
				m[kk] = vv
			}
		}
		return m
	case "ref":
		return map[string]any{"$defs": map[string]any{"d": sub(0)}, "$ref": "#/$defs/d"}
	}
	panic("unknown schema keyword " + k)
}

// jsSchemaJSON renders the conjunction of keyword schemas as one schema object.
func jsSchemaJSON(ss []tlaval.Value) []byte {
	merged := map[string]any{}
	var parts []any
	clash := false
	for _, s := range ss {
		r := jsRender(s)
		parts = append(parts, r)
		m, ok := r.(map[string]any)
		if !ok {
			clash = true
			continue
		}
		for k, v := range m {
			if _, dup := merged[k]; dup {
				clash = true
			}
			merged[k] = v
		}
	}
	var top any = merged
	if clash {
		if len(parts) == 1 {
			top = parts[0]
		} else {
			top = map[string]any{"allOf": parts}
		}
	}
	if m, ok := top.(map[string]any); ok {
		m["$schema"] = "https://json-schema.org/draft/2020-12/schema"
	}
	b, _ := json.Marshal(top)
	return b
}

type jsVerdicts struct {
	acc []bool
	err string
}

func jsVerdictsOf(ctx *cue.Context, schemaJSON []byte, insts []cue.Value) (jsVerdicts, cue.Value) {
	sv := ctx.CompileBytes(schemaJSON)
	if sv.Err() != nil {
		return jsVerdicts{err: "schema JSON does not load: " + sv.Err().Error()}, cue.Value{}
	}
	f, err := jsonschema.Extract(sv, &jsonschema.Config{})
	if err != nil {
		return jsVerdicts{err: "extract: " + err.Error()}, cue.Value{}
	}
	// Evaluate in the language itself: the schema's declarations become the
	// field `s`, and every instance is unified with it as `rN: s & instance`.
	var imports, decls []string
	for _, d := range f.Decls {
		b, err := format.Node(d)
		if err != nil {
			return jsVerdicts{err: "generated CUE does not format: " + err.Error()}, cue.Value{}
		}
		if _, ok := d.(*ast.ImportDecl); ok {
			imports = append(imports, string(b))
		} else if _, ok := d.(*ast.Package); !ok {
			decls = append(decls, string(b))
		}
	}
	var sb strings.Builder
	sb.WriteString(strings.Join(imports, "\n") + "\ns: {\n" + strings.Join(decls, "\n") + "\n}\n")
	for i, in := range jsInstanceText {
		fmt.Fprintf(&sb, "r%d: s & %s\n", i, in)
	}
	all := ctx.CompileString(sb.String())
	s := all.LookupPath(cue.ParsePath("s"))
	if !s.Exists() {
		return jsVerdicts{err: "generated CUE does not compile: " + fmt.Sprint(all.Err())}, cue.Value{}
	}
	out := jsVerdicts{acc: make([]bool, len(insts))}
	for i := range insts {
		out.acc[i] = all.LookupPath(cue.ParsePath(fmt.Sprintf("r%d", i))).Validate(cue.Concrete(true), cue.Definitions(false)) == nil
	}
	return out, s
}

// jsDefectClass names the known translation defect a schema falls under
// (see known_findings.json), or "".
// a boolean false schema as a member of oneOf / anyOf
var reFalseMember = regexp.MustCompile(`"(oneOf|anyOf)":\[([^\[\]]*,)?false[,\]]`)

func jsDefectClass(schemaJSON []byte, sval cue.Value) string {
	js := string(schemaJSON)
	gen := ""
	if sval.Exists() {
		gen = fmt.Sprint(sval)
		if n := sval.Syntax(cue.Raw()); n != nil {
			if b, err := format.Node(n); err == nil {
				gen = string(b)
			}
		}
	}
	switch {
	case strings.Contains(js, `"propertyNames"`):
		return "propertyNames"
	case reFalseMember.MatchString(js):
		return "oneOf-false"
	case strings.Contains(js, `"allOf":[false`) || strings.Contains(js, `,false]`) && strings.Contains(js, `"allOf"`):
		return "allOf-false"
	case strings.Contains(js, `"if"`) && strings.Contains(gen, `"disallowed"`):
		return "matchIf-eager-error"
	case strings.HasPrefix(js, `{"$defs":`) && strings.Contains(js, `"$ref":"#/$defs/d"`):
		return "ref-to-local-definition"
	}
	return ""
}

// instances as CUE text (JSON is CUE)
var jsInstanceText = jsInstances

func checkC13(r *kit.Run) {
	r.Assumptions = []string{
		"keyword subset and constants of JsonSchema.tla (draft 2020-12 semantics); instance universe of 28 JSON values; numbers stored doubled in the spec",
		"a schema the importer refuses (Extract error, or generated CUE that does not compile) is counted, not judged; only wrong verdicts are violations",
	}
	level := kit.Pick(r, 1, 2)
	cfg := fmt.Sprintf("INIT Init\nNEXT Next\nCONSTANTS Level = %d Sample = %d\nINVARIANTS NotNot AllOfIsConj OneOfWithin\n", level, kit.Pick(r, 0, 60))
	res, err := kit.RunTLC(kit.TLCOpts{Module: "JsonSchema", CfgText: cfg, Dump: true, Seed: r.Seed + 9, Timeout: 40 * time.Minute, Heap: "24g"})
	defer res.Cleanup()
	if err != nil || res.TimedOut || !res.OK() {
		r.Fatal("JsonSchema model failed (design level): %v %s\n%s", err, res.Violation, res.Tail(40))
	}
	r.AddTLC("JsonSchema schemas", res)
	type wctx struct {
		ctx   *cue.Context
		insts []cue.Value
		n     int
	}
	ws := make([]*wctx, 16)
	var schemas, refused, pairs, regenOK, regenRefused, nontrivial, canary, caught int64
	refusedKinds := map[string]int{}
	var rk atomic.Value
	_ = rk
	refCh := make(chan string, 1024)
	done := make(chan struct{})
	go func() {
		for k := range refCh {
			refusedKinds[k]++
		}
		close(done)
	}()
	n, err := kit.ForEachState(res.DumpPath, nil, 16, func(w int, st tlaval.State) {
		if ws[w] == nil || ws[w].n%200 == 0 {
			c := &wctx{ctx: cuecontext.New()}
			for _, j := range jsInstances {
				c.insts = append(c.insts, c.ctx.CompileString(j))
			}
			ws[w] = c
		}
		c := ws[w]
		c.n++
		ss := tlaval.AsSeq(st["sch"])
		want := map[int]bool{}
		for _, i := range tlaval.IntSet(st["acc"]) {
			want[i] = true
		}
		sj := jsSchemaJSON(ss)
		atomic.AddInt64(&schemas, 1)
		v, sval := jsVerdictsOf(c.ctx, sj, c.insts)
		if v.err != "" {
			atomic.AddInt64(&refused, 1)
			refCh <- tlaval.AsStr(tlaval.AsRec(ss[0])["k"])
			return
		}
		bad := false
		var wrong []string
		for i := range jsInstances {
			atomic.AddInt64(&pairs, 1)
			if v.acc[i] != want[i+1] {
				bad = true
				wrong = append(wrong, fmt.Sprintf("%s:cue=%v,spec=%v", jsInstances[i], v.acc[i], want[i+1]))
			}
		}
		if bad {
			if cls := jsDefectClass(sj, sval); cls != "" {
				// a defect class recorded as known finding: one key per class
				r.Violation("class "+cls, fmt.Sprintf("schema %s: the CUE generated from it and JSON Schema validity disagree on %v", sj, wrong), map[string]any{"schema": json.RawMessage(sj), "disagreements": wrong, "class": cls})
				return
			}
			r.Violation(string(sj), fmt.Sprintf("the CUE generated from the schema and JSON Schema validity disagree on %d instances: %v", len(wrong), wrong), map[string]any{"schema": json.RawMessage(sj), "disagreements": wrong})
			if os.Getenv("VERIF_DEBUG") != "" {
				fmt.Fprintf(os.Stderr, "MISMATCH %s %v\n", sj, wrong)
			}
		}
		if len(want) > 0 && len(want) < len(jsInstances) {
			atomic.AddInt64(&nontrivial, 1)
		}
		if c.n%50 == 1 {
			atomic.AddInt64(&canary, 1)
			flip := map[int]bool{}
			for k := range want {
				flip[k] = true
			}
			if flip[1] {
				delete(flip, 1)
			} else {
				flip[1] = true
			}
			for i := range jsInstances {
				if v.acc[i] != flip[i+1] {
					atomic.AddInt64(&caught, 1)
					break
				}
			}
			r.Sample(map[string]any{"schema": json.RawMessage(sj), "valid_instances": len(want)})
		}
		if bad {
			return
		}
		// generate JSON Schema back from the CUE and extract again
		expr, err := jsonschema.Generate(sval, nil)
		if err != nil {
			atomic.AddInt64(&regenRefused, 1)
			return
		}
		gb, err := format.Node(expr)
		if err != nil {
			atomic.AddInt64(&regenRefused, 1)
			return
		}
		gv := c.ctx.CompileBytes(gb)
		gj, err := gv.MarshalJSON()
		if err != nil {
			atomic.AddInt64(&regenRefused, 1)
			return
		}
		v2, _ := jsVerdictsOf(c.ctx, gj, c.insts)
		if v2.err != "" {
			atomic.AddInt64(&regenRefused, 1)
			return
		}
		atomic.AddInt64(&regenOK, 1)
		for i := range jsInstances {
			if v2.acc[i] != v.acc[i] {
				if os.Getenv("VERIF_DEBUG") != "" {
					fmt.Fprintf(os.Stderr, "REGEN %s => %s : %s orig=%v back=%v\n", sj, gj, jsInstances[i], v.acc[i], v2.acc[i])
				}
				if strings.Contains(string(sj), `"$ref"`) && strings.Contains(string(gj), `"type":"object","$ref"`) {
					r.Violation("class generate-ref-with-type-object", fmt.Sprintf("schema %s is generated back as %s: a \"type\": \"object\" appears next to the root $ref, so %s is judged differently", sj, gj, jsInstances[i]), map[string]any{"schema": json.RawMessage(sj), "generated_back": json.RawMessage(gj)})
					continue
				}
				if (!v.acc[i] || strings.Contains(string(sj), `"not"`) || strings.Contains(string(sj), `"oneOf"`) || strings.Contains(string(sj), `"if"`)) && strings.Contains(string(sj), `"additionalProperties"`) && (strings.Contains(string(sj), `"properties"`) || strings.Contains(string(sj), `"patternProperties"`)) {
					r.Violation("class generate-permissive-additionalProperties", fmt.Sprintf("schema %s is generated back as %s, which also accepts %s", sj, gj, jsInstances[i]), map[string]any{"schema": json.RawMessage(sj), "generated_back": json.RawMessage(gj)})
					continue
				}
				if tlaval.AsInt(st["lvl"]) >= 2 {
					// compound schemas (keyword pairs, deeper nesting): the generator is lossy in many such
					// shapes; one class for the family (DESIGN.md §10.4), exact keys only on the first level
					r.Add("regenerate_mismatches_level2", 1)
					r.Violation("class generate-lossy-compound", fmt.Sprintf("schema %s is generated back as %s, which judges %s differently (back=%v, original=%v)", sj, gj, jsInstances[i], v2.acc[i], v.acc[i]), map[string]any{"schema": json.RawMessage(sj), "generated_back": json.RawMessage(gj)})
					continue
				}
				r.Violation("regenerate "+string(sj)+" ## "+jsInstances[i], fmt.Sprintf("instance %s: the schema generated back from the CUE accepts=%v, the original accepts=%v", jsInstances[i], v2.acc[i], v.acc[i]), map[string]any{"schema": json.RawMessage(sj), "generated_back": json.RawMessage(gj), "instance": json.RawMessage(jsInstances[i])})
			}
		}
	})
	close(refCh)
	<-done
	if err != nil {
		r.Fatal("JsonSchema dump: %v", err)
	}
	if (canary == 0 && r.Violations() == 0) || caught != canary {
		r.Fatal("canary: %d of %d flipped verdict sets noticed", caught, canary)
	}
	ks := []string{}
	for k, c := range refusedKinds {
		ks = append(ks, fmt.Sprintf("%s:%d", k, c))
	}
	sort.Strings(ks)
	r.Set("traces_validated_against_impl", n)
	r.Set("schemas", int(schemas))
	r.Set("schemas_refused_by_importer", int(refused))
	r.Set("refused_by_first_keyword", ks)
	r.Set("schema_instance_pairs", int(pairs))
	r.Set("regenerated_and_compared", int(regenOK))
	r.Set("regeneration_refused", int(regenRefused))
	r.Set("evaluations", int(pairs))
	r.Set("distinct_nontrivial", int(nontrivial))
	r.Set("canaries_rejected", int(caught))
	r.Set("rule", "every schema state of JsonSchema.tla (level 1: every keyword with every leaf sub-schema, all leaf pairs under allOf/anyOf/oneOf, if/then/else over a small set; level 2: seeded samples of keyword pairs in one object and of depth-2 nesting) x every instance of the 28-value universe: Extract -> compile -> unify & validate vs the spec's Valid; then Generate -> Extract again must give the same verdicts; non-trivial = schemas that accept some but not all instances")
}

func init() {
	workers["jsdebug"] = func(args []string) {
		ctx := cuecontext.New()
		sv := ctx.CompileString(args[0])
		f, err := jsonschema.Extract(sv, &jsonschema.Config{})
		if err != nil {
			fmt.Println("extract error:", err)
			return
		}
		b, _ := format.Node(f)
		fmt.Printf("%s\n", b)
		if len(args) > 1 {
			sv := ctx.BuildFile(f)
			in := ctx.CompileString(args[1])
			u := sv.Unify(in)
			fmt.Println("unified:", u, "| validate:", u.Validate(cue.Concrete(true), cue.Definitions(false)))
		}
	}
}

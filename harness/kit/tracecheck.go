package kit

import (
	"bytes"
	"os"
	"path/filepath"
	"regexp"
	"strconv"
	"time"
)

var reAccepted = regexp.MustCompile(`"ACCEPTED", (\d+), "OF", (\d+), "CONSUMED", (\d+)`)

// ValidateTraces checks ndjson trace lines (one trace per line) against a
// trace specification that follows the kit convention: it reads
// "traces.ndjson", resets between traces, prints
// <<"ACCEPTED", n, "OF", m, "CONSUMED", c>> from its POSTCONDITION (or on
// early exit) and keeps high-water marks in TLC registers 1 and 2.
// It returns the indices of rejected traces and, for each, how many
// events were matched before the rejection.
func ValidateTraces(r *Run, module, cfgText string, lines [][]byte, label string, maxRejected int) (rejected []int, consumed map[int]int) {
	consumed = map[int]int{}
	base := 0
	rest := lines
	for len(rest) > 0 {
		var buf bytes.Buffer
		for _, l := range rest {
			buf.Write(l)
			buf.WriteByte('\n')
		}
		res, err := RunTLC(TLCOpts{Module: module, CfgText: cfgText, Workers: 1, DFS: true, Timeout: 30 * time.Minute,
			Extra: map[string][]byte{"traces.ndjson": buf.Bytes()}, Heap: "8g", Xss: "512m"})
		if err != nil || res.TimedOut {
			out := res.Tail(30)
			res.Cleanup()
			r.Fatal("trace validation (%s): %v timedout=%v\n%s", label, err, res.TimedOut, out)
		}
		m := reAccepted.FindStringSubmatch(res.Output)
		if m == nil {
			os.WriteFile(filepath.Join(VerifDir(), ".build", "tlc_fail.log"), []byte(res.Output), 0o644)
			out := res.Tail(40)
			res.Cleanup()
			r.Fatal("trace validation (%s): no acceptance line (full output in .build/tlc_fail.log)\n%s", label, out)
		}
		acc, _ := strconv.Atoi(m[1])
		cons, _ := strconv.Atoi(m[3])
		r.Add("trace_validation_states", res.Distinct)
		r.Logf("trace validation (%s): %d traces, accepted %d, %d states, %.1fs", label, len(rest), acc, res.Distinct, res.Wall.Seconds())
		res.Cleanup()
		if acc >= len(rest) {
			return rejected, consumed
		}
		rejected = append(rejected, base+acc)
		consumed[base+acc] = cons
		base += acc + 1
		rest = rest[acc+1:]
		if len(rejected) >= maxRejected {
			return rejected, consumed
		}
	}
	return rejected, consumed
}

// Package kit is the shared machinery of the verification harness: TLC
// driver, evidence writer, known-findings file, verdict plumbing.
package kit

import (
	"bytes"
	"context"
	"fmt"
	"os"
	"os/exec"
	"path/filepath"
	"regexp"
	"runtime"
	"strconv"
	"strings"
	"time"
)

// VerifDir is the root of the verification tree (directory holding spec/).
func VerifDir() string {
	if d := os.Getenv("VERIF_DIR"); d != "" {
		return d
	}
	return "/verif"
}

func RepoDir() string {
	if d := os.Getenv("VERIF_REPO"); d != "" {
		return d
	}
	return "/repo"
}

type TLCOpts struct {
	Module     string // module name (file Module.tla in spec/)
	Cfg        string // cfg file name in spec/ (copied as is) ...
	CfgText    string // ... or literal cfg text
	Workers    int    // 0 = all cores
	Dump       bool   // -dump states
	DumpDot    bool   // -dump dot,actionlabels
	Coverage   bool
	Simulate   string // e.g. "num=100" ; file= is added automatically when SimFiles
	SimFiles   bool
	Depth      int
	Seed       int64
	Deadlock   bool // check deadlock (default off)
	Timeout    time.Duration
	Extra      map[string][]byte // extra files placed next to the spec (traces)
	DFS        bool              // StateDeque depth-first queue
	Xss        string
	Heap       string
	Continue   bool // -continue
	MaxSetSize int  // -maxSetSize (TLC default 1000000)
}

type TLCResult struct {
	Dir        string // scratch dir; caller must call Cleanup
	Generated  int
	Distinct   int
	Depth      int
	Coverage   map[string]int // action name -> times taken (distinct states found by it)
	Output     string
	ExitCode   int
	TimedOut   bool
	DumpPath   string
	DotPath    string
	SimDir     string
	Wall       time.Duration
	Violation  string // name of violated invariant/property, if any
	ErrorTrace string
}

func (r *TLCResult) Cleanup() {
	if os.Getenv("VERIF_KEEP") != "" {
		if r != nil {
			fmt.Fprintln(os.Stderr, "kept TLC dir", r.Dir)
		}
		return
	}
	if r != nil && r.Dir != "" {
		os.RemoveAll(r.Dir)
	}
}

// OK reports whether TLC finished and found no error.
func (r *TLCResult) OK() bool {
	return r.ExitCode == 0 && !r.TimedOut && r.Violation == ""
}

var (
	reStates = regexp.MustCompile(`(\d+) states generated, (\d+) distinct states found`)
	reDepth  = regexp.MustCompile(`The depth of the complete state graph search is (\d+)`)
	reCov    = regexp.MustCompile(`(?m)^<(\w+) line \d+, col \d+ to line \d+, col \d+ of module (\w+)>: (\d+):(\d+)`)
	reInv    = regexp.MustCompile(`Invariant (\S+) is violated`)
	reProp   = regexp.MustCompile(`(Temporal properties were violated|Action property (\S+) is violated|Deadlock reached|Postcondition.*is false|Error: The (first|second) argument of Assert|Assumption .* is false|evaluating the expression|TLC threw an unexpected exception)`)
)

// RunTLC runs TLC in a fresh scratch directory.
func RunTLC(o TLCOpts) (*TLCResult, error) {
	dir, err := os.MkdirTemp("", "vh-tlc-")
	if err != nil {
		return nil, err
	}
	res := &TLCResult{Dir: dir, Coverage: map[string]int{}}
	specDir := filepath.Join(VerifDir(), "spec")
	ents, err := os.ReadDir(specDir)
	if err != nil {
		return res, err
	}
	for _, e := range ents {
		if strings.HasSuffix(e.Name(), ".tla") {
			b, err := os.ReadFile(filepath.Join(specDir, e.Name()))
			if err != nil {
				return res, err
			}
			if err := os.WriteFile(filepath.Join(dir, e.Name()), b, 0o644); err != nil {
				return res, err
			}
		}
	}
	cfg := []byte(o.CfgText)
	if o.Cfg != "" {
		cfg, err = os.ReadFile(filepath.Join(specDir, o.Cfg))
		if err != nil {
			return res, err
		}
	}
	if err := os.WriteFile(filepath.Join(dir, "run.cfg"), cfg, 0o644); err != nil {
		return res, err
	}
	for name, b := range o.Extra {
		if err := os.WriteFile(filepath.Join(dir, name), b, 0o644); err != nil {
			return res, err
		}
	}
	workers := o.Workers
	if workers <= 0 {
		workers = runtime.NumCPU()
	}
	args := []string{"-XX:+UseParallelGC"}
	if o.Heap != "" {
		args = append(args, "-Xmx"+o.Heap)
	}
	if o.Xss != "" {
		args = append(args, "-Xss"+o.Xss)
	}
	if o.DFS {
		args = append(args, "-Dtlc2.tool.queue.IStateQueue=StateDeque")
	}
	args = append(args, "-cp", "/opt/veriftools/tla/tla2tools.jar:/opt/veriftools/tla/CommunityModules-deps.jar", "tlc2.TLC",
		"-workers", strconv.Itoa(workers), "-metadir", filepath.Join(dir, "meta"), "-config", "run.cfg", "-noGenerateSpecTE")
	if !o.Deadlock {
		args = append(args, "-deadlock")
	}
	if o.Dump {
		res.DumpPath = filepath.Join(dir, "states.dump")
		args = append(args, "-dump", filepath.Join(dir, "states"))
	}
	if o.DumpDot {
		res.DotPath = filepath.Join(dir, "graph.dot")
		args = append(args, "-dump", "dot,actionlabels", res.DotPath)
	}
	if o.Coverage {
		args = append(args, "-coverage", "1")
	}
	if o.Simulate != "" {
		sim := o.Simulate
		if o.SimFiles {
			res.SimDir = filepath.Join(dir, "sim")
			os.MkdirAll(res.SimDir, 0o755)
			sim = "file=" + filepath.Join(res.SimDir, "b") + "," + sim
		}
		args = append(args, "-simulate", sim)
	}
	if o.Depth > 0 {
		args = append(args, "-depth", strconv.Itoa(o.Depth))
	}
	if o.Seed != 0 {
		args = append(args, "-seed", strconv.FormatInt(o.Seed, 10))
	}
	if o.MaxSetSize > 0 {
		args = append(args, "-maxSetSize", strconv.Itoa(o.MaxSetSize))
	}
	if o.Continue {
		args = append(args, "-continue")
	}
	args = append(args, o.Module+".tla")
	to := o.Timeout
	if to == 0 {
		to = 30 * time.Minute
	}
	ctx, cancel := context.WithTimeout(context.Background(), to)
	defer cancel()
	cmd := exec.CommandContext(ctx, "java", args...)
	cmd.Dir = dir
	cmd.Env = append(os.Environ(), "JAVA_TOOL_OPTIONS=")
	var out bytes.Buffer
	cmd.Stdout = &out
	cmd.Stderr = &out
	start := time.Now()
	err = cmd.Run()
	res.Wall = time.Since(start)
	res.Output = out.String()
	if ctx.Err() != nil {
		res.TimedOut = true
	}
	if ee, ok := err.(*exec.ExitError); ok {
		res.ExitCode = ee.ExitCode()
	} else if err != nil {
		return res, fmt.Errorf("tlc: %w", err)
	}
	ms := reStates.FindAllStringSubmatch(res.Output, -1)
	if len(ms) > 0 {
		m := ms[len(ms)-1]
		res.Generated, _ = strconv.Atoi(m[1])
		res.Distinct, _ = strconv.Atoi(m[2])
	}
	if m := reDepth.FindStringSubmatch(res.Output); m != nil {
		res.Depth, _ = strconv.Atoi(m[1])
	}
	for _, m := range reCov.FindAllStringSubmatch(res.Output, -1) {
		n, _ := strconv.Atoi(m[4])
		// coverage is printed cumulatively several times; keep the max
		if n > res.Coverage[m[1]] {
			res.Coverage[m[1]] = n
		}
	}
	if m := reInv.FindStringSubmatch(res.Output); m != nil {
		res.Violation = m[1]
	} else if m := reProp.FindStringSubmatch(res.Output); m != nil {
		res.Violation = m[0]
	}
	if res.Violation != "" {
		if i := strings.Index(res.Output, "Error:"); i >= 0 {
			res.ErrorTrace = res.Output[i:]
		}
	}
	return res, nil
}

// Tail returns the last n lines of the TLC output (for diagnostics).
func (r *TLCResult) Tail(n int) string {
	lines := strings.Split(strings.TrimRight(r.Output, "\n"), "\n")
	if len(lines) > n {
		lines = lines[len(lines)-n:]
	}
	return strings.Join(lines, "\n")
}

package kit

import (
	"crypto/sha256"
	"encoding/hex"
	"encoding/json"
	"fmt"
	"os"
	"path/filepath"
	"sort"
	"strconv"
	"sync"
	"time"
)

// Run is one invocation of a property check.
type Run struct {
	ID    string
	Tier  string // quick | thorough
	Seed  int64
	Level string

	mu          sync.Mutex
	start       time.Time
	Cov         map[string]any
	Assumptions []string
	samples     []any
	violations  int
	knownSeen   map[string]string
	findings    []Finding
	printed     map[string]bool
	// replay mode (--replay <file>): the check runs with the tier and seed recorded in the
	// replay file and only the violation with that file's key counts
	replayKey  string
	replayPath string
	reproduced bool
}

type Finding struct {
	Property string `json:"property"`
	Key      string `json:"key"`
	What     string `json:"what"`
	Status   string `json:"status"` // open | fixed
	Commit   string `json:"commit,omitempty"`
}

func NewRun(id, tier, level string) *Run {
	seed := int64(1)
	if s := os.Getenv("VERIF_SEED"); s != "" {
		if n, err := strconv.ParseInt(s, 10, 64); err == nil {
			seed = n
		}
	}
	r := &Run{ID: id, Tier: tier, Seed: seed, Level: level, start: time.Now(),
		Cov: map[string]any{}, knownSeen: map[string]string{}, printed: map[string]bool{}}
	if p := os.Getenv("VERIF_REPLAY"); p != "" {
		var rep struct {
			Property, Key, Tier string
			Seed                int64
		}
		if !filepath.IsAbs(p) {
			p = filepath.Join(os.Getenv("VERIF_ORIG_PWD"), p)
		}
		b, err := os.ReadFile(p)
		if err != nil || json.Unmarshal(b, &rep) != nil || rep.Key == "" {
			fmt.Fprintf(os.Stderr, "TOOL-FAILURE property=%s cannot read replay file %s\n", id, p)
			os.Exit(2)
		}
		if rep.Property != "" && rep.Property != id {
			fmt.Fprintf(os.Stderr, "TOOL-FAILURE property=%s replay file %s belongs to %s\n", id, p, rep.Property)
			os.Exit(2)
		}
		r.replayKey, r.replayPath = rep.Key, p
		if rep.Tier != "" {
			r.Tier = rep.Tier
		}
		if rep.Seed != 0 {
			r.Seed = rep.Seed
		}
	}
	b, err := os.ReadFile(filepath.Join(VerifDir(), "known_findings.json"))
	if err == nil {
		var all []Finding
		if err := json.Unmarshal(b, &all); err != nil {
			r.Fatal("known_findings.json: %v", err)
		}
		for _, f := range all {
			if f.Property == id {
				r.findings = append(r.findings, f)
			}
		}
	}
	return r
}

func (r *Run) Thorough() bool { return r.Tier == "thorough" }

// Pick returns q for quick and t for thorough.
func Pick[T any](r *Run, q, t T) T {
	if r.Thorough() {
		return t
	}
	return q
}

func (r *Run) Logf(format string, args ...any) {
	fmt.Fprintf(os.Stderr, "[%s %6.1fs] %s\n", r.ID, time.Since(r.start).Seconds(), fmt.Sprintf(format, args...))
}

// Fatal reports tool trouble: exit 2, never a violation.
func (r *Run) Fatal(format string, args ...any) {
	fmt.Fprintf(os.Stderr, "TOOL-FAILURE property=%s %s\n", r.ID, fmt.Sprintf(format, args...))
	os.Exit(2)
}

// Sample records one explored case for the evidence file (first 8 kept).
func (r *Run) Sample(s any) {
	r.mu.Lock()
	defer r.mu.Unlock()
	if len(r.samples) < 8 {
		r.samples = append(r.samples, s)
	}
}

// Add adds n to an integer coverage counter.
func (r *Run) Add(key string, n int) {
	r.mu.Lock()
	defer r.mu.Unlock()
	cur, _ := r.Cov[key].(int)
	r.Cov[key] = cur + n
}

func (r *Run) Set(key string, v any) {
	r.mu.Lock()
	defer r.mu.Unlock()
	r.Cov[key] = v
}

func (r *Run) Get(key string) int {
	r.mu.Lock()
	defer r.mu.Unlock()
	cur, _ := r.Cov[key].(int)
	return cur
}

// AddTLC folds TLC statistics into the coverage record.
func (r *Run) AddTLC(name string, res *TLCResult) {
	r.Add("states", res.Distinct)
	r.Add("transitions", res.Generated)
	r.mu.Lock()
	defer r.mu.Unlock()
	runs, _ := r.Cov["tlc_runs"].([]any)
	rec := map[string]any{"config": name, "distinct": res.Distinct, "generated": res.Generated, "depth": res.Depth, "wall_s": res.Wall.Seconds()}
	if len(res.Coverage) > 0 {
		rec["action_coverage"] = res.Coverage
	}
	r.Cov["tlc_runs"] = append(runs, rec)
}

// Violation records a disagreement observed on the real code. key is the
// canonical text of the failing input/call site/history; replay is stored
// as JSON in replays/<ID>/ and named in the VIOLATION line. A key listed
// as an open known finding is reported as KNOWN-FINDING instead.
func (r *Run) Violation(key, what string, replay any) {
	r.mu.Lock()
	defer r.mu.Unlock()
	if r.replayKey != "" {
		if key == r.replayKey && !r.reproduced {
			r.reproduced = true
			r.violations++
			fmt.Printf("VIOLATION property=%s replay=%s\n", r.ID, r.replayPath)
			fmt.Fprintf(os.Stderr, "  reproduced: %s: %s\n", key, what)
		}
		return
	}
	for _, f := range r.findings {
		if f.Status == "open" && f.Key == key {
			if _, ok := r.knownSeen[key]; !ok {
				r.knownSeen[key] = f.What
				fmt.Printf("KNOWN-FINDING: property=%s %s [%s]\n", r.ID, f.What, key)
			}
			return
		}
	}
	if r.printed[key] {
		return
	}
	r.printed[key] = true
	r.violations++
	if r.violations > 20 {
		return // enough replays written
	}
	h := sha256.Sum256([]byte(key))
	dir := filepath.Join(VerifDir(), "replays", r.ID)
	os.MkdirAll(dir, 0o755)
	path := filepath.Join(dir, hex.EncodeToString(h[:6])+".json")
	b, _ := json.MarshalIndent(map[string]any{"property": r.ID, "key": key, "what": what, "case": replay, "tier": r.Tier, "seed": r.Seed}, "", " ")
	os.WriteFile(path, b, 0o644)
	fmt.Printf("VIOLATION property=%s replay=%s\n", r.ID, path)
	fmt.Fprintf(os.Stderr, "  %s: %s\n", key, what)
}

func (r *Run) Violations() int {
	r.mu.Lock()
	defer r.mu.Unlock()
	return r.violations
}

// Finish writes the evidence file and returns the process exit code.
func (r *Run) Finish() int {
	r.mu.Lock()
	defer r.mu.Unlock()
	cov := r.Cov
	if _, ok := cov["samples"]; !ok {
		cov["samples"] = r.samples
	}
	if len(r.knownSeen) > 0 {
		ks := []string{}
		for k := range r.knownSeen {
			ks = append(ks, k)
		}
		sort.Strings(ks)
		cov["known_findings_reobserved"] = ks
	}
	ev := map[string]any{
		"property_id": r.ID,
		"tier":        r.Tier,
		"seed":        r.Seed,
		"level":       r.Level,
		"coverage":    cov,
		"assumptions": r.Assumptions,
		"wall_s":      time.Since(r.start).Seconds(),
		"violations":  r.violations,
	}
	if r.Assumptions == nil {
		ev["assumptions"] = []string{}
	}
	b, err := json.MarshalIndent(ev, "", " ")
	if err != nil {
		fmt.Fprintf(os.Stderr, "evidence: %v\n", err)
		return 2
	}
	if r.replayKey != "" {
		// a replay run judges one recorded case; it does not describe what the check covers
		if r.reproduced {
			return 1
		}
		fmt.Fprintf(os.Stderr, "[%s] replay %s: the recorded violation was not reproduced on this tree (tier=%s seed=%d)\n", r.ID, r.replayPath, r.Tier, r.Seed)
		return 0
	}
	dir := filepath.Join(VerifDir(), "evidence")
	os.MkdirAll(dir, 0o755)
	if err := os.WriteFile(filepath.Join(dir, r.ID+".json"), append(b, '\n'), 0o644); err != nil {
		fmt.Fprintf(os.Stderr, "evidence: %v\n", err)
		return 2
	}
	if r.violations > 0 {
		return 1
	}
	fmt.Fprintf(os.Stderr, "[%s] OK tier=%s seed=%d wall=%.1fs\n", r.ID, r.Tier, r.Seed, time.Since(r.start).Seconds())
	return 0
}

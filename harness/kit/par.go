package kit

import (
	"os"
	"runtime"
	"sync"

	"cuelang.org/go/verifharness/tlaval"
)

// ForEachState streams the states of a TLC dump to a worker pool.
// f is called concurrently; worker is in [0, workers).
func ForEachState(dumpPath string, vars []string, workers int, f func(worker int, st tlaval.State)) (int, error) {
	if workers <= 0 {
		workers = runtime.NumCPU()
	}
	fh, err := os.Open(dumpPath)
	if err != nil {
		return 0, err
	}
	defer fh.Close()
	ch := make(chan tlaval.State, 1024)
	var wg sync.WaitGroup
	for w := 0; w < workers; w++ {
		wg.Add(1)
		go func(w int) {
			defer wg.Done()
			for st := range ch {
				f(w, st)
			}
		}(w)
	}
	n := 0
	err = tlaval.ReadDump(fh, vars, func(st tlaval.State) error {
		n++
		ch <- st
		return nil
	})
	close(ch)
	wg.Wait()
	return n, err
}

// ParallelN runs f(i) for i in [0,n) on a worker pool.
func ParallelN(n, workers int, f func(worker, i int)) {
	if workers <= 0 {
		workers = runtime.NumCPU()
	}
	ch := make(chan int, 256)
	var wg sync.WaitGroup
	for w := 0; w < workers; w++ {
		wg.Add(1)
		go func(w int) {
			defer wg.Done()
			for i := range ch {
				f(w, i)
			}
		}(w)
	}
	for i := 0; i < n; i++ {
		ch <- i
	}
	close(ch)
	wg.Wait()
}

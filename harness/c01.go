package main

import (
	"fmt"
	"sort"
	"strings"
	"sync"
	"sync/atomic"
	"time"

	"cuelang.org/go/cue"
	"cuelang.org/go/cue/build"
	"cuelang.org/go/cue/cuecontext"
	"cuelang.org/go/cue/parser"
	"cuelang.org/go/verifharness/kit"
	"cuelang.org/go/verifharness/tlaval"
)

func init() { register("C01", "model_checking", checkC01) }

type c01Decl struct {
	Lab string
	Cs  []struct {
		ID int
		W  bool
	}
	G int
}

type c01State struct {
	Seed  string
	N     int
	Files [][]c01Decl
}

func c01Parse(st tlaval.State) c01State {
	s := c01State{Seed: st["seed"].String(), N: tlaval.AsInt(st["n"])}
	for _, f := range tlaval.AsSeq(st["files"]) {
		var ds []c01Decl
		for _, d := range tlaval.AsSeq(f) {
			r := tlaval.AsRec(d)
			dd := c01Decl{Lab: tlaval.AsStr(r["lab"]), G: tlaval.AsInt(r["g"])}
			for _, c := range tlaval.AsSeq(r["cs"]) {
				cr := tlaval.AsRec(c)
				dd.Cs = append(dd.Cs, struct {
					ID int
					W  bool
				}{tlaval.AsInt(cr["id"]), tlaval.AsBool(cr["w"])})
			}
			ds = append(ds, dd)
		}
		s.Files = append(s.Files, ds)
	}
	return s
}

func (s c01State) render(pool []string) []string {
	var out []string
	for _, f := range s.Files {
		var b strings.Builder
		b.WriteString("package p\n")
		for _, d := range f {
			var cs []string
			for _, c := range d.Cs {
				t := pool[c.ID-1]
				if c.W {
					t = "{" + t + "}"
				}
				cs = append(cs, t)
			}
			expr := strings.Join(cs, " & ")
			if d.G == 1 && len(cs) >= 3 {
				expr = cs[0] + " & (" + strings.Join(cs[1:], " & ") + ")"
			}
			fmt.Fprintf(&b, "%s: %s\n", d.Lab, expr)
		}
		out = append(out, b.String())
	}
	return out
}

func (s c01State) describe(pool []string) string {
	per := map[string][]string{}
	for _, f := range s.Files {
		for _, d := range f {
			for _, c := range d.Cs {
				per[d.Lab] = append(per[d.Lab], pool[c.ID-1])
			}
		}
	}
	var parts []string
	for _, l := range []string{"a", "b", "c"} {
		cs := per[l]
		sort.Strings(cs)
		var u []string
		for i, c := range cs {
			if c != "_" && (i == 0 || cs[i-1] != c) {
				u = append(u, c)
			}
		}
		parts = append(parts, l+": {"+strings.Join(u, " , ")+"}")
	}
	return strings.Join(parts, "; ")
}

// c01Eval evaluates the package made of the given file sources (plus the
// shared definitions file) and returns the projection per top-level field.
func c01Eval(srcs []string) (map[string]string, error) {
	return pkgEval(append([]string{"package p\n#D: {x: int}\n#M: {T: _, out: [string]: T}\n"}, srcs...), []string{"a", "b", "c"})
}

// pkgEval evaluates the package made of srcs plus the probe file and returns
// the projection of each of the given top-level fields.
func pkgEval(srcs []string, labels []string) (map[string]string, error) {
	ctx := cuecontext.New()
	bi := build.NewContext().NewInstance("", nil)
	all := append(append([]string{}, srcs...), probeFile(labels))
	for i, src := range all {
		f, err := parser.ParseFile(fmt.Sprintf("f%d.cue", i), src)
		if err != nil {
			return nil, fmt.Errorf("parse: %v\n%s", err, src)
		}
		if err := bi.AddSyntax(f); err != nil {
			return nil, fmt.Errorf("add: %v", err)
		}
	}
	v := ctx.BuildInstance(bi)
	cc := newCanonCtx(ctx)
	out := map[string]string{}
	if err := v.Err(); err != nil && len(labels) > 3 {
		any := false
		for _, l := range labels {
			if v.LookupPath(cue.ParsePath(l)).Exists() {
				any = true
			}
		}
		if !any {
			return nil, fmt.Errorf("build: %v", err)
		}
	}
	for _, l := range labels {
		var b strings.Builder
		b.WriteString(cc.canon(v.LookupPath(cue.ParsePath(l)), 3))
		// acceptance of the probes, evaluated in the language itself (hidden
		// fields of the extra file): `"p-<path>-<i>": <path> & <probe>`
		for _, sub := range []string{"", "x", "y"} {
			b.WriteString("|acc" + sub + "=")
			for i := range cc.names {
				pv := v.LookupPath(cue.MakePath(cue.Str(fmt.Sprintf("p-%s%s-%d", l, sub, i))))
				switch {
				case !pv.Exists():
					b.WriteByte('?')
				case pv.Validate(cue.Concrete(true)) == nil:
					b.WriteByte('1')
				default:
					b.WriteByte('0')
				}
			}
		}
		out[l] = b.String()
	}
	return out, nil
}

// c01ProbeFile is the extra file unifying every field (and its x / y
// sub-fields) with every probe.
func c01ProbeFile() string { return probeFile([]string{"a", "b", "c"}) }

func probeFile(labels []string) string {
	var b strings.Builder
	b.WriteString("package p\n")
	names := append(append([]string{}, canonScalarProbes...), canonStructProbes...)
	for _, l := range labels {
		for _, sub := range []string{"", "x", "y"} {
			path := l
			if sub != "" {
				path = l + "." + sub
			}
			for i, p := range names {
				fmt.Fprintf(&b, "\"p-%s%s-%d\": %s & %s\n", l, sub, i, path, p)
			}
		}
	}
	return b.String()
}

// the hand-picked seeds of CueRewrite.tla (Fixed), as TLC prints them
var c01FixedSeeds = map[string]bool{
	"<<<<16, 17, 18>>, <<2, 0, 0>>, <<8, 0, 0>>>>":    true,
	"<<<<11, 3, 0>>, <<5, 1, 0>>, <<13, 8, 0>>>>":     true,
	"<<<<13, 14, 0>>, <<20, 0, 0>>, <<9, 10, 12>>>>":  true,
	"<<<<22, 9, 0>>, <<6, 4, 0>>, <<19, 8, 0>>>>":     true,
	"<<<<24, 23, 0>>, <<26, 25, 7>>, <<15, 8, 0>>>>":  true,
	"<<<<13, 14, 0>>, <<20, 0, 0>>, <<2, 0, 0>>>>":    true,
	"<<<<3, 12, 4>>, <<2, 0, 0>>, <<14, 9, 19>>>>":    true,
	"<<<<27, 28, 11>>, <<1, 0, 0>>, <<2, 0, 0>>>>":    true,
	"<<<<29, 30, 11>>, <<1, 4, 0>>, <<20, 3, 0>>>>":   true,
	"<<<<31, 32, 8>>, <<32, 31, 33>>, <<31, 8, 0>>>>": true,
}

func checkC01(r *kit.Run) {
	r.Assumptions = []string{
		"programs: packages of up to two files declaring the fields a, b, c with up to 3 conjuncts each from the 33-entry pool of CueRewrite.tla (scalars, bounds, defaulted disjunctions, open/closed structs, a definition, patterns, lists, references to sibling fields); rewrites as listed in the spec, orbits explored to MaxSteps",
		"two values are the same when their projections agree: error class, kind, concrete scalar, fields with their kinds, closedness, acceptance of 26 probe values, default, concreteness; field order and error text are ignored",
	}
	// pool
	tres, err := kit.RunTLC(kit.TLCOpts{Module: "CueRewrite", CfgText: "INIT TablesInit\nNEXT TablesNext\nCONSTANTS MaxSteps = 0 Sample = 0 MaxConj = 0\n", Dump: true, Workers: 1, Timeout: 5 * time.Minute})
	if err != nil || !tres.OK() {
		r.Fatal("CueRewrite tables: %v\n%s", err, tres.Tail(30))
	}
	var pool []string
	kit.ForEachState(tres.DumpPath, nil, 1, func(_ int, st tlaval.State) {
		for _, x := range tlaval.AsSeq(tlaval.AsRec(st["seed"])["pool"]) {
			pool = append(pool, tlaval.AsStr(x))
		}
	})
	tres.Cleanup()
	cfg := kit.Pick(r, "CueRewrite_quick.cfg", "CueRewrite_thorough.cfg")
	res, err := kit.RunTLC(kit.TLCOpts{Module: "CueRewrite", Cfg: cfg, Dump: true, Seed: r.Seed + 3, Timeout: 40 * time.Minute, Heap: "24g"})
	defer res.Cleanup()
	if err != nil || res.TimedOut || !res.OK() {
		r.Fatal("CueRewrite model failed (design level): %v %s\n%s", err, res.Violation, res.Tail(40))
	}
	r.AddTLC(cfg, res)
	// pass 1: seeds
	var mu sync.Mutex
	seeds := map[string]map[string]string{}
	seedState := map[string]c01State{}
	var states []c01State
	_, err = kit.ForEachState(res.DumpPath, nil, 8, func(_ int, st tlaval.State) {
		s := c01Parse(st)
		mu.Lock()
		states = append(states, s)
		if s.N == 0 {
			seedState[s.Seed] = s
		}
		mu.Unlock()
	})
	if err != nil {
		r.Fatal("CueRewrite dump: %v", err)
	}
	keys := []string{}
	for k := range seedState {
		keys = append(keys, k)
	}
	sort.Strings(keys)
	kit.ParallelN(len(keys), 16, func(_, i int) {
		s := seedState[keys[i]]
		c, err := c01Eval(s.render(pool))
		if err != nil {
			r.Fatal("seed program does not parse: %v", err)
		}
		mu.Lock()
		seeds[keys[i]] = c
		mu.Unlock()
	})
	// Random seeds in which a field that is in error is referenced from another
	// field are left out: how far such an error travels along the reference
	// depends on evaluation order (the class is covered by a fixed seed and
	// recorded as a known finding).
	refTarget := map[int]string{11: "b", 12: "c", 20: "a", 22: "b"}
	skip := map[string]bool{}
	fixedSeeds := 0
	for _, k := range keys {
		s := seedState[k]
		isFixed := c01FixedSeeds[k]
		if isFixed {
			fixedSeeds++
			continue
		}
		for _, f := range s.Files {
			for _, d := range f {
				for _, c := range d.Cs {
					if t, ok := refTarget[c.ID]; ok && strings.Contains(seeds[k][t], "ERROR") {
						skip[k] = true
					}
				}
			}
		}
	}
	if fixedSeeds != len(c01FixedSeeds) {
		r.Fatal("fixed seeds not recognised (%d)", fixedSeeds)
	}
	var evals, differing, nontrivial, canaryN, canaryHit int64
	for _, k := range keys {
		ok := 0
		for _, c := range seeds[k] {
			if strings.HasPrefix(c, "ok") || strings.HasPrefix(c, "incomplete") {
				ok++
			}
		}
		if ok >= 2 {
			nontrivial++
		}
	}
	sort.Slice(states, func(i, j int) bool { return fmt.Sprint(states[i]) < fmt.Sprint(states[j]) })
	kit.ParallelN(len(states), 16, func(_, i int) {
		s := states[i]
		if s.N == 0 || skip[s.Seed] {
			return
		}
		srcs := s.render(pool)
		c, err := c01Eval(srcs)
		if err != nil {
			r.Violation("rewrite does not parse "+strings.Join(srcs, "\n---\n"), err.Error(), map[string]any{"files": srcs})
			return
		}
		atomic.AddInt64(&evals, 1)
		base := seeds[s.Seed]
		for _, l := range []string{"a", "b", "c"} {
			if c[l] != base[l] {
				atomic.AddInt64(&differing, 1)
				seed := seedState[s.Seed]
				r.Violation("order-dependence "+seed.describe(pool),
					fmt.Sprintf("field %s evaluates differently after a meaning-preserving rearrangement:\n  seed:      %s\n  rewritten: %s", l, base[l], c[l]),
					map[string]any{"seed_files": seed.render(pool), "rewritten_files": srcs, "field": l, "seed_projection": base[l], "rewritten_projection": c[l]})
				break
			}
		}
		if i%997 == 0 {
			r.Sample(map[string]any{"seed_files": seedState[s.Seed].render(pool), "rewritten_files": srcs, "steps": s.N})
			// canary: a genuinely different program must project differently
			bad := append([]string{}, srcs...)
			bad[0] += "a: 7\nb: \"q\"\nc: {x: 9}\n"
			live := false
			for _, l := range []string{"a", "b", "c"} {
				if !strings.HasPrefix(base[l], "ERROR") && !strings.HasPrefix(base[l], "absent") {
					live = true
				}
			}
			if bc, err := c01Eval(bad); err == nil && live {
				atomic.AddInt64(&canaryN, 1)
				if bc["a"] != base["a"] || bc["b"] != base["b"] || bc["c"] != base["c"] {
					atomic.AddInt64(&canaryHit, 1)
				}
			}
		}
	})
	if canaryN == 0 || canaryHit != canaryN {
		r.Fatal("canary: %d of %d altered programs projected differently", canaryHit, canaryN)
	}
	r.Set("traces_validated_against_impl", int(evals))
	r.Set("evaluations", int(evals)+len(keys))
	r.Set("seed_programs", len(keys))
	r.Set("seeds_skipped_error_referenced", len(skip))
	r.Set("distinct_nontrivial", int(nontrivial))
	r.Set("canaries_rejected", int(canaryHit))
	r.Set("rule", "seed programs: 5 fixed + a seeded random sample (TLC RandomSubset) of packages over the conjunct pool; every state of every rewrite orbit (TLC BFS to MaxSteps) is rendered as a multi-file package, evaluated, and its per-field projection compared with the seed's; non-trivial seed = at least two fields evaluate without a hard error")
}

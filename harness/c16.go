package main

import (
	"bufio"
	"bytes"
	"encoding/json"
	"fmt"
	"math/rand"
	"os"
	"os/exec"
	"path/filepath"
	"regexp"
	"strconv"
	"sync"
	"syscall"
	"time"

	"cuelang.org/go/verifharness/kit"
	"cuelang.org/go/verifharness/mcw"
)

func init() { register("C16", "model_checking", checkC16) }

type mcProcRun struct {
	Proc     int         `json:"proc"`
	Ops      [][]mcw.Op  `json:"ops"`
	CrashAt  int64       `json:"crash_at,omitempty"`
	Faults   []mcw.Fault `json:"faults,omitempty"`
	MaxDelay string      `json:"max_delay,omitempty"`
	Seed     int64       `json:"seed,omitempty"`
	KillMs   int         `json:"kill_after_ms,omitempty"` // driver-side kill -9 (asynchronous)
}

type mcScript struct {
	Name string        `json:"name"`
	NP   int           `json:"np"`
	TPP  int           `json:"tpp"`
	NV   int           `json:"nv"`
	NF   int           `json:"nf"`
	Incs [][]mcProcRun `json:"incarnations"`
}

type mcTrace struct {
	ID     string           `json:"id"`
	Ev     []mcw.Event      `json:"ev"`
	Final  []map[string]any `json:"final"`
	Script *mcScript        `json:"-"`
	UpTo   int              `json:"-"`
}

type mcEnv struct {
	zips  map[int][]byte
	order map[int][]string
}

var mcEnvCache sync.Map

func mcGetEnv(nv, nf int) (*mcEnv, error) {
	key := [2]int{nv, nf}
	if e, ok := mcEnvCache.Load(key); ok {
		return e.(*mcEnv), nil
	}
	_, zips, order, err := mcw.Registry(nv, nf)
	if err != nil {
		return nil, err
	}
	e := &mcEnv{zips, order}
	mcEnvCache.Store(key, e)
	return e, nil
}

// mcRunScript runs the script against the real code in a scratch cache
// directory and returns one trace per incarnation prefix (events so far +
// the disk projection observed after that incarnation). crashed reports,
// per incarnation, whether each process died by signal.
func mcRunScript(s *mcScript) (traces []mcTrace, crashed [][]bool, err error) {
	env, err := mcGetEnv(s.NV, s.NF)
	if err != nil {
		return nil, nil, err
	}
	root, err := os.MkdirTemp("", "vh-mc-")
	if err != nil {
		return nil, nil, err
	}
	defer func() {
		modcacheRemoveAll(root)
	}()
	cacheDir := filepath.Join(root, "cache")
	traceDir := filepath.Join(root, "trace")
	os.MkdirAll(cacheDir, 0o755)
	os.MkdirAll(traceDir, 0o755)
	self := filepath.Join(kit.VerifDir(), ".build", "mcworker")
	for i, inc := range s.Incs {
		var wg sync.WaitGroup
		died := make([]bool, len(inc))
		errs := make([]error, len(inc))
		for j, pr := range inc {
			wg.Add(1)
			go func(j int, pr mcProcRun) {
				defer wg.Done()
				ops, _ := json.Marshal(pr.Ops)
				faults, _ := json.Marshal(pr.Faults)
				if pr.Faults == nil {
					faults = []byte("[]")
				}
				args := []string{"--cache", cacheDir, "--trace", traceDir, "--proc", strconv.Itoa(pr.Proc),
					"--ops", string(ops), "--faults", string(faults), "--nv", strconv.Itoa(s.NV), "--nf", strconv.Itoa(s.NF),
					"--crash-at", strconv.FormatInt(pr.CrashAt, 10), "--seed", strconv.FormatInt(pr.Seed, 10)}
				if pr.MaxDelay != "" {
					args = append(args, "--max-delay", pr.MaxDelay)
				}
				cmd := exec.Command(self, args...)
				cmd.Env = append(os.Environ(), "GOMAXPROCS=2", "GOGC=off")
				var eb bytes.Buffer
				cmd.Stderr = &eb
				if err := cmd.Start(); err != nil {
					errs[j] = err
					return
				}
				var timer *time.Timer
				if pr.KillMs > 0 {
					timer = time.AfterFunc(time.Duration(pr.KillMs)*time.Millisecond, func() { cmd.Process.Signal(syscall.SIGKILL) })
				}
				watchdog := time.AfterFunc(120*time.Second, func() { cmd.Process.Signal(syscall.SIGKILL) })
				err := cmd.Wait()
				watchdog.Stop()
				if timer != nil {
					timer.Stop()
				}
				if err != nil {
					if ee, ok := err.(*exec.ExitError); ok {
						if ws, ok := ee.Sys().(syscall.WaitStatus); ok && ws.Signaled() && ws.Signal() == syscall.SIGKILL {
							died[j] = true
							return
						}
					}
					errs[j] = fmt.Errorf("worker proc %d: %v: %s", pr.Proc, err, eb.String())
				}
			}(j, pr)
		}
		wg.Wait()
		for _, e := range errs {
			if e != nil {
				return nil, nil, e
			}
		}
		crashed = append(crashed, died)
		for j, pr := range inc {
			// A process that ended (killed or not) loses its volatile state; the
			// next incarnation is a new process. Both are "Crash" markers for the
			// trace spec (with every thread idle it is TraceCrashIdle).
			if died[j] || i+1 < len(s.Incs) {
				for g := 1; g <= s.TPP; g++ {
					f, err := os.OpenFile(filepath.Join(traceDir, fmt.Sprintf("p%d_g%d.ndjson", pr.Proc, g)), os.O_WRONLY|os.O_CREATE|os.O_APPEND, 0o644)
					if err != nil {
						return nil, nil, err
					}
					b, _ := json.Marshal(mcw.Event{P: pr.Proc, G: g, Ev: "Crash"})
					f.Write(append(b, '\n'))
					f.Close()
				}
			}
		}
		tr := mcTrace{ID: fmt.Sprintf("%s#%d", s.Name, i+1), Script: s, UpTo: i + 1}
		for p := 1; p <= s.NP; p++ {
			for g := 1; g <= s.TPP; g++ {
				fh, err := os.Open(filepath.Join(traceDir, fmt.Sprintf("p%d_g%d.ndjson", p, g)))
				if err != nil {
					continue
				}
				sc := bufio.NewScanner(fh)
				sc.Buffer(make([]byte, 1<<16), 1<<24)
				for sc.Scan() {
					var e mcw.Event
					if err := json.Unmarshal(sc.Bytes(), &e); err != nil {
						// a line cut by SIGKILL mid-write: the event is lost, which the
						// ghost-step rule of the trace spec covers; ignore it.
						continue
					}
					tr.Ev = append(tr.Ev, e)
				}
				fh.Close()
			}
		}
		tr.Final = mcw.DiskProjection(cacheDir, s.NV, s.NF, env.zips, env.order)
		traces = append(traces, tr)
	}
	return traces, crashed, nil
}

func modcacheRemoveAll(dir string) {
	filepath.Walk(dir, func(p string, fi os.FileInfo, err error) error {
		if err == nil && fi.IsDir() {
			os.Chmod(p, 0o777)
		}
		return nil
	})
	os.RemoveAll(dir)
}

var reAccepted = regexp.MustCompile(`"ACCEPTED", (\d+), "OF", (\d+), "CONSUMED", (\d+)`)

// mcValidate checks traces (all with the same constants) against
// ModCacheTrace.tla. It returns the indices of rejected traces.
func mcValidate(r *kit.Run, traces []mcTrace, np, tpp, nv, nf int, label string) (rejected []int, consumedAt map[int]int) {
	consumedAt = map[int]int{}
	base := 0
	rest := traces
	for len(rest) > 0 {
		var buf bytes.Buffer
		for _, t := range rest {
			// per-actor event sequences a[p][g]
			a := make([][][]mcw.Event, np)
			for p := range a {
				a[p] = make([][]mcw.Event, tpp)
				for g := range a[p] {
					a[p][g] = []mcw.Event{}
				}
			}
			for _, e := range t.Ev {
				a[e.P-1][e.G-1] = append(a[e.P-1][e.G-1], e)
			}
			b, _ := json.Marshal(map[string]any{"id": t.ID, "a": a, "final": t.Final})
			buf.Write(b)
			buf.WriteByte('\n')
		}
		cfg := fmt.Sprintf(`SPECIFICATION TraceSpec
CONSTANTS NP = %d TPP = %d NV = %d NF = %d MaxCrashes = 100000 MaxFaults = 100000 MaxOps = 100000
INVARIANTS NeverServePartial Stable ArtefactsAtomic WritersHoldLock CleanOnlyStale MarkerDiscipline OneDownloadPerProcess
CONSTRAINT Progress2
POSTCONDITION AllAccepted
CHECK_DEADLOCK FALSE
`, np, tpp, nv, nf)
		res, err := kit.RunTLC(kit.TLCOpts{Module: "ModCacheTrace", CfgText: cfg, Workers: 1, DFS: true, Timeout: 20 * time.Minute,
			Extra: map[string][]byte{"traces.ndjson": buf.Bytes()}, Heap: "8g"})
		if err != nil || res.TimedOut {
			res.Cleanup()
			r.Fatal("trace validation (%s): %v timedout=%v\n%s", label, err, res.TimedOut, res.Tail(30))
		}
		m := reAccepted.FindStringSubmatch(res.Output)
		if m == nil {
			os.WriteFile(filepath.Join(kit.VerifDir(), ".build", "tlc_fail.log"), []byte(res.Output), 0o644)
			out := res.Tail(40)
			res.Cleanup()
			r.Fatal("trace validation (%s): no acceptance line\n%s", label, out)
		}
		acc, _ := strconv.Atoi(m[1])
		cons, _ := strconv.Atoi(m[3])
		r.Logf("trace validation (%s): %d traces, accepted %d, %d states, %.1fs", label, len(rest), acc, res.Distinct, res.Wall.Seconds())
		r.Add("trace_validation_states", res.Distinct)
		inv := res.Violation
		res.Cleanup()
		if acc >= len(rest) {
			return rejected, consumedAt
		}
		// trace rest[acc] is rejected (or an invariant failed inside it)
		rejected = append(rejected, base+acc)
		consumedAt[base+acc] = cons
		_ = inv
		base += acc + 1
		rest = rest[acc+1:]
		if len(rejected) >= 5 {
			return rejected, consumedAt
		}
	}
	return rejected, consumedAt
}

func mcClean(np, tpp, nv, nf int, name string, ops [][]mcw.Op) *mcScript {
	return &mcScript{Name: name, NP: np, TPP: tpp, NV: nv, NF: nf, Incs: [][]mcProcRun{{{Proc: 1, Ops: ops}}}}
}

func checkC16(r *kit.Run) {
	r.Assumptions = []string{
		"a crash is process death (SIGKILL): file-system effects already issued are durable, nothing is torn below the granularity of one hook point (no power-loss / fsync modelling)",
		"the registry is an in-memory OCI registry wrapped by a fault injector; a short body surfaces as a read error (as cuelabs ociclient's digest check does)",
		"verifhook points are emitted after the effect they name; actors are ordered only per goroutine, TLC searches for an explaining interleaving",
	}
	// ---- 1. the design: exhaustive model checking ----
	cfg := kit.Pick(r, "ModCache_quick.cfg", "ModCache_thorough.cfg")
	res, err := kit.RunTLC(kit.TLCOpts{Module: "ModCache", Cfg: cfg, Coverage: true, Timeout: 60 * time.Minute, Heap: "24g"})
	if err != nil || res.TimedOut {
		res.Cleanup()
		r.Fatal("TLC ModCache: %v timedout=%v\n%s", err, res.TimedOut, res.Tail(30))
	}
	if !res.OK() {
		out := res.Tail(60)
		res.Cleanup()
		r.Fatal("ModCache model property failed at design level (%s); not a code verdict\n%s", res.Violation, out)
	}
	r.AddTLC(cfg, res)
	modelActions := res.Coverage
	res.Cleanup()
	r.Logf("ModCache exhaustive: %d distinct states", res.Distinct)

	if r.Thorough() {
		lres, err := kit.RunTLC(kit.TLCOpts{Module: "ModCache", Cfg: "ModCache_live.cfg", Timeout: 30 * time.Minute, Heap: "16g"})
		if err != nil || lres.TimedOut || !lres.OK() {
			out := lres.Tail(40)
			lres.Cleanup()
			r.Fatal("ModCache liveness config failed (design level): %v %s\n%s", err, lres.Violation, out)
		}
		r.AddTLC("ModCache_live.cfg", lres)
		lres.Cleanup()
	}

	rng := rand.New(rand.NewSource(r.Seed))
	var all []mcTrace
	seenEvents := map[string]int{}
	addTraces := func(ts []mcTrace) {
		for _, t := range ts {
			for _, e := range t.Ev {
				seenEvents[e.Ev]++
			}
		}
		all = append(all, ts...)
	}

	// ---- 2. crash-point replay: 1 process, 1 goroutine ----
	nf := 3
	opSeqs := map[string][][]mcw.Op{
		"fetch":     {{{Op: "fetch", V: 1}}},
		"fetch-mod": {{{Op: "fetch", V: 1}, {Op: "modfile", V: 1}}},
		"mod-fetch": {{{Op: "modfile", V: 1}, {Op: "fetch", V: 1}, {Op: "fetch", V: 1}}},
	}
	type job struct{ s *mcScript }
	var jobs []job
	lens := map[string]int{}
	for name, ops := range opSeqs {
		s := mcClean(1, 1, 1, nf, "clean/"+name, ops)
		ts, _, err := mcRunScript(s)
		if err != nil {
			r.Fatal("clean run: %v", err)
		}
		addTraces(ts)
		lens[name] = len(ts[0].Ev)
		r.Sample(map[string]any{"script": s.Name, "events": eventNames(ts[0].Ev)})
	}
	for name, ops := range opSeqs {
		n := lens[name]
		for k1 := 1; k1 <= n; k1++ {
			jobs = append(jobs, job{&mcScript{Name: fmt.Sprintf("crash/%s/%d", name, k1), NP: 1, TPP: 1, NV: 1, NF: nf,
				Incs: [][]mcProcRun{{{Proc: 1, Ops: ops, CrashAt: int64(k1)}}, {{Proc: 1, Ops: ops}}}}})
		}
	}
	// double crashes: the second incarnation is cut at every point as well
	// (all in thorough; a seeded sample in quick).
	for name, ops := range opSeqs {
		n := lens[name]
		for k1 := 1; k1 <= n; k1++ {
			for k2 := 1; k2 <= n+4; k2++ {
				if !r.Thorough() && rng.Intn(20) != 0 {
					continue
				}
				jobs = append(jobs, job{&mcScript{Name: fmt.Sprintf("crash2/%s/%d/%d", name, k1, k2), NP: 1, TPP: 1, NV: 1, NF: nf,
					Incs: [][]mcProcRun{{{Proc: 1, Ops: ops, CrashAt: int64(k1)}}, {{Proc: 1, Ops: ops, CrashAt: int64(k2)}}, {{Proc: 1, Ops: ops}}}}})
			}
		}
	}
	// registry faults (error before body, mid-body, short body), alone and followed by a crash
	for _, mode := range []string{"err", "mid", "short"} {
		for _, kind := range []string{"zip", "mod"} {
			ops := [][]mcw.Op{{{Op: "fetch", V: 1}, {Op: "modfile", V: 1}, {Op: "fetch", V: 1}}}
			if kind == "mod" {
				ops = [][]mcw.Op{{{Op: "modfile", V: 1}, {Op: "fetch", V: 1}, {Op: "modfile", V: 1}}}
			}
			f := []mcw.Fault{{Kind: kind, N: 1, Mode: mode}}
			jobs = append(jobs, job{&mcScript{Name: fmt.Sprintf("fault/%s/%s", kind, mode), NP: 1, TPP: 1, NV: 1, NF: nf,
				Incs: [][]mcProcRun{{{Proc: 1, Ops: ops, Faults: f}}, {{Proc: 1, Ops: ops}}}}})
			for k := 1; k <= 14; k++ {
				if !r.Thorough() && k%3 != int(r.Seed%3) {
					continue
				}
				jobs = append(jobs, job{&mcScript{Name: fmt.Sprintf("fault-crash/%s/%s/%d", kind, mode, k), NP: 1, TPP: 1, NV: 1, NF: nf,
					Incs: [][]mcProcRun{{{Proc: 1, Ops: ops, Faults: f, CrashAt: int64(k)}}, {{Proc: 1, Ops: ops}}}}})
			}
		}
	}
	results := make([][]mcTrace, len(jobs))
	var firstErr error
	var emu sync.Mutex
	kit.ParallelN(len(jobs), 16, func(_, i int) {
		ts, _, err := mcRunScript(jobs[i].s)
		if err != nil {
			emu.Lock()
			if firstErr == nil {
				firstErr = err
			}
			emu.Unlock()
			return
		}
		results[i] = ts
	})
	if firstErr != nil {
		r.Fatal("crash script: %v", firstErr)
	}
	crashScripts := 0
	for _, ts := range results {
		addTraces(ts)
		crashScripts++
	}
	r.Logf("crash/fault scripts run: %d (%d trace prefixes)", crashScripts, len(all))
	rej, cons := mcValidate(r, all, 1, 1, 1, nf, "crash replay")
	for _, i := range rej {
		t := all[i]
		r.Violation("trace "+t.ID, fmt.Sprintf("behaviour of the real module cache is not a behaviour of ModCache.tla (rejected after %d events of %d)", cons[i], len(t.Ev)),
			map[string]any{"script": t.Script, "incarnations_replayed": t.UpTo, "events": t.Ev, "final_disk": t.Final, "matched_events": cons[i]})
	}
	seqTraces := len(all)

	// ---- 3. concurrent processes x goroutines, free running ----
	nConc := kit.Pick(r, 24, 300)
	var conc []mcTrace
	concJobs := make([]*mcScript, nConc)
	for i := range concJobs {
		np, tpp, nv := 2, 2, 2
		var inc []mcProcRun
		for p := 1; p <= np; p++ {
			var ops [][]mcw.Op
			for g := 1; g <= tpp; g++ {
				var l []mcw.Op
				for k := 0; k < 2; k++ {
					op := "fetch"
					if rng.Intn(3) == 0 {
						op = "modfile"
					}
					l = append(l, mcw.Op{Op: op, V: 1 + rng.Intn(nv)})
				}
				ops = append(ops, l)
			}
			pr := mcProcRun{Proc: p, Ops: ops, MaxDelay: []string{"200us", "1ms", "3ms"}[rng.Intn(3)], Seed: rng.Int63()}
			if rng.Intn(4) == 0 {
				pr.Faults = []mcw.Fault{{Kind: []string{"zip", "mod"}[rng.Intn(2)], N: 1, Mode: []string{"err", "mid"}[rng.Intn(2)]}}
			}
			inc = append(inc, pr)
		}
		concJobs[i] = &mcScript{Name: fmt.Sprintf("conc/%d", i), NP: np, TPP: tpp, NV: nv, NF: nf, Incs: [][]mcProcRun{inc}}
	}
	concRes := make([][]mcTrace, nConc)
	kit.ParallelN(nConc, 6, func(_, i int) {
		ts, _, err := mcRunScript(concJobs[i])
		if err != nil {
			emu.Lock()
			if firstErr == nil {
				firstErr = err
			}
			emu.Unlock()
			return
		}
		concRes[i] = ts
	})
	if firstErr != nil {
		r.Fatal("concurrent script: %v", firstErr)
	}
	for _, ts := range concRes {
		conc = append(conc, ts...)
		for _, t := range ts {
			for _, e := range t.Ev {
				seenEvents[e.Ev]++
			}
		}
	}
	if len(conc) > 0 {
		r.Sample(map[string]any{"script": conc[0].Script, "events": len(conc[0].Ev)})
	}
	rej, cons = mcValidate(r, conc, 2, 2, 2, nf, "concurrent")
	for _, i := range rej {
		t := conc[i]
		r.Violation("trace "+t.ID+" "+scriptKey(t.Script), fmt.Sprintf("concurrent behaviour of the real module cache is not a behaviour of ModCache.tla (rejected after %d events of %d)", cons[i], len(t.Ev)),
			map[string]any{"script": t.Script, "events": t.Ev, "final_disk": t.Final, "matched_events": cons[i]})
	}

	// ---- 4. canaries: corrupted traces must be rejected ----
	canaryOK := 0
	var base mcTrace // a clean single-process trace
	for _, t := range all {
		if t.ID == "clean/fetch#1" {
			base = t
		}
	}
	for ci, mut := range []func(t *mcTrace){
		func(t *mcTrace) { // the marker write is missing
			var ev []mcw.Event
			for _, e := range t.Ev {
				if e.Ev != "F_WritePartial" {
					ev = append(ev, e)
				}
			}
			t.Ev = ev
		},
		func(t *mcTrace) { // the disk is left with the marker
			t.Final = cloneFinal(t.Final)
			t.Final[0]["partial"] = true
		},
		func(t *mcTrace) { // the returned directory was observed incomplete
			t.Ev = append([]mcw.Event(nil), t.Ev...)
			for i := range t.Ev {
				if t.Ev[i].Ev == "F_Return" {
					t.Ev[i].B = false
				}
			}
		},
	} {
		c := base
		c.ID = fmt.Sprintf("canary%d", ci)
		mut(&c)
		if !hasEvent(base.Ev, "F_WritePartial") {
			r.Fatal("canary base trace has no F_WritePartial event")
		}
		rj, _ := mcValidate(r, []mcTrace{c}, 1, 1, 1, nf, "canary")
		if len(rj) == 1 {
			canaryOK++
		}
	}
	if canaryOK != 3 {
		r.Fatal("canary: only %d of 3 corrupted traces were rejected by the trace spec", canaryOK)
	}

	// every model action that has a hook must have been observed
	missing := []string{}
	for _, a := range []string{"F_CheckDir", "Z_Stat1", "Z_Lock", "Z_Stat2", "Z_CleanTmp", "Z_CreateTmp", "Z_Get", "Z_Chunk", "Z_Copied", "Z_Rename", "Z_Fail", "Z_Unlock",
		"F_Lock", "F_Recheck", "F_RemoveDir", "F_WritePartial", "U_Mkdir", "U_Create", "U_Close", "F_RemovePartial", "F_Unlock",
		"M_Read1", "M_Lock", "M_Read2", "M_Get", "M_CreateTmp", "M_Write", "M_Rename", "M_Unlock", "Crash"} {
		if seenEvents[a] == 0 {
			missing = append(missing, a)
		}
	}
	if len(missing) > 0 {
		r.Fatal("hook events never observed (binding gap): %v", missing)
	}
	r.Set("model_action_coverage", modelActions)
	r.Set("hook_events_observed", seenEvents)
	r.Set("traces_validated_against_impl", seqTraces+len(conc))
	r.Set("crash_fault_scripts", crashScripts)
	r.Set("concurrent_runs", nConc)
	r.Set("canaries_rejected", canaryOK)
	r.Set("evaluations", seqTraces+len(conc))
	r.Set("distinct_nontrivial", crashScripts+nConc)
	r.Set("rule", "crash scripts: every hook point of three operation sequences as first crash point, (thorough: every / quick: sampled) second crash point, registry faults with and without a crash, each followed by a clean run; every incarnation prefix is a trace with the observed disk projection; concurrent: 2 processes x 2 goroutines x 2 versions free running with seeded delays and faults; all traces validated by TLC against ModCacheTrace.tla (per-actor cursors, every invariant evaluated at every step)")
}

func eventNames(ev []mcw.Event) []string {
	out := make([]string, len(ev))
	for i, e := range ev {
		out[i] = e.Ev
	}
	return out
}

func hasEvent(ev []mcw.Event, name string) bool {
	for _, e := range ev {
		if e.Ev == name {
			return true
		}
	}
	return false
}

func cloneFinal(f []map[string]any) []map[string]any {
	out := make([]map[string]any, len(f))
	for i, m := range f {
		c := map[string]any{}
		for k, v := range m {
			c[k] = v
		}
		out[i] = c
	}
	return out
}

func scriptKey(s *mcScript) string {
	b, _ := json.Marshal(s)
	return string(b)
}

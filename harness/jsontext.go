package main

import (
	"encoding/json"
	"fmt"
	"math/big"
	"strings"
	"sync/atomic"
	"time"

	"cuelang.org/go/cue"
	"cuelang.org/go/cue/ast"
	"cuelang.org/go/cue/cuecontext"
	cuejson "cuelang.org/go/encoding/json"
	cueyaml "cuelang.org/go/encoding/yaml"
	"cuelang.org/go/verifharness/kit"
	"cuelang.org/go/verifharness/tlaval"
	"golang.org/x/text/unicode/norm"
)

var jsonRaw = map[string]string{"RAW_EACUTE": "\u00e9", "RAW_EMOJI": "\U0001F600", "RAW_DEL": "\x7f", "RAW_2028": "\u2028", "RAW_FFFD": "\ufffd",
	"RAW_0301": "\u0301", "RAW_CTRL1": "\x01", "RAW_LF": "\n", "RAW_TAB": "\t"}

// checkJSONText replays JsonText.tla: every scalar text of the grammar (and
// its malformed neighbours) through CUE's JSON decoder, as a value, a list
// element and an object key.
func checkJSONText(r *kit.Run, asYAML bool) {
	tres, err := kit.RunTLC(kit.TLCOpts{Module: "JsonText", CfgText: "INIT TablesInit\nNEXT Next\nCONSTANTS MaxAtoms = 0 Part = \"string\"\n", Dump: true, Workers: 1, Timeout: 5 * time.Minute})
	if err != nil || !tres.OK() {
		r.Fatal("JsonText tables: %v\n%s", err, tres.Tail(20))
	}
	type atom struct {
		k, t string
		cp   int
	}
	var atoms []atom
	var signs, ints, fracs, exps, bad []string
	kit.ForEachState(tres.DumpPath, nil, 1, func(_ int, st tlaval.State) {
		rec := tlaval.AsRec(st["txt"])
		for _, a := range tlaval.AsSeq(rec["atoms"]) {
			ar := tlaval.AsRec(a)
			t := tlaval.AsStr(ar["t"])
			if raw, ok := jsonRaw[t]; ok {
				t = raw
			}
			atoms = append(atoms, atom{tlaval.AsStr(ar["k"]), t, tlaval.AsInt(ar["cp"])})
		}
		strs := func(v tlaval.Value) (out []string) {
			for _, x := range tlaval.AsSeq(v) {
				out = append(out, tlaval.AsStr(x))
			}
			return
		}
		signs, ints, fracs, exps, bad = strs(rec["signs"]), strs(rec["ints"]), strs(rec["fracs"]), strs(rec["exps"]), strs(rec["bad"])
	})
	tres.Cleanup()
	if len(atoms) < 50 || len(bad) == 0 {
		r.Fatal("JsonText tables: %d atoms", len(atoms))
	}
	var cases, valid, invalid, anyv, canary, caught int64
	decName := "JSON"
	if asYAML {
		decName = "YAML"
	}
	judge := func(w int, ctxs []*cue.Context, key, text, verdict string, wantStr *string, wantNum *big.Rat, wantInt bool) {
		atomic.AddInt64(&cases, 1)
		for ci, doc := range []string{text, "[" + text + "]", `{"k": ` + text + `}`, "{" + text + `: 1}`} {
			if ci == 3 && wantStr == nil && verdict != "invalid" {
				continue // numbers are not keys
			}
			if ci == 3 && verdict == "invalid" && !strings.HasPrefix(text, `"`) {
				continue
			}
			var expr ast.Expr
			var yf *ast.File
			var err error
			if asYAML {
				if verdict != "valid" {
					continue // only valid JSON is claimed to mean the same under the YAML decoder
				}
				yf, err = cueyaml.Extract("t.yaml", []byte(doc))
			} else {
				expr, err = cuejson.Extract("t.json", []byte(doc))
			}
			goValid := json.Valid([]byte(doc))
			switch verdict {
			case "invalid":
				if goValid {
					r.Fatal("JsonText: %q is valid JSON for Go but the model says invalid", doc)
				}
				if err == nil {
					r.Violation("json accepts "+key+fmt.Sprint(ci), fmt.Sprintf("CUE's JSON decoder accepts %q, which RFC 8259 does not allow", doc), map[string]any{"json": doc})
				}
				continue
			case "any":
				continue // no panic is all that is asked
			}
			if !goValid {
				r.Fatal("JsonText: %q is not valid JSON for Go but the model says valid", doc)
			}
			class := key + fmt.Sprint(ci)
			if strings.Contains(doc, "\ufeff") || strings.Contains(strings.ToLower(doc), `\ufeff`) {
				class = "class bom-in-string"
			}
			if err != nil {
				r.Violation(class, fmt.Sprintf("CUE's %s decoder rejects the valid JSON document %q: %v", decName, doc, err), map[string]any{"json": doc})
				continue
			}
			var v cue.Value
			if asYAML {
				v = ctxs[w].BuildFile(yf)
			} else {
				v = ctxs[w].BuildExpr(expr)
			}
			var leaf cue.Value
			var gotKey string
			switch ci {
			case 0:
				leaf = v
			case 1:
				leaf = v.LookupPath(cue.MakePath(cue.Index(0)))
			case 2:
				leaf = v.LookupPath(cue.ParsePath("k"))
			case 3:
				it, ferr := v.Fields()
				if ferr != nil || !it.Next() {
					r.Violation(class, fmt.Sprintf("the object %q decodes to a value without its member (%v)", doc, ferr), map[string]any{"json": doc})
					continue
				}
				gotKey = it.Selector().Unquoted()
				if gotKey != *wantStr && gotKey == norm.NFC.String(*wantStr) {
					r.Violation("class key-nfc-normalised", fmt.Sprintf("the key of %q decodes to %q (NFC-normalised), the grammar denotes %q", doc, gotKey, *wantStr), map[string]any{"json": doc})
				} else if gotKey != *wantStr {
					r.Violation(class, fmt.Sprintf("the key of %q decodes to %q, the grammar denotes %q", doc, gotKey, *wantStr), map[string]any{"json": doc})
				}
				continue
			}
			if wantStr != nil {
				got, serr := leaf.String()
				if serr != nil || got != *wantStr {
					r.Violation(class, fmt.Sprintf("%q decodes to %q (%v), the grammar denotes %q", doc, got, serr, *wantStr), map[string]any{"json": doc})
				}
				if ci == 0 && atomic.LoadInt64(&cases)%97 == 0 {
					atomic.AddInt64(&canary, 1)
					if got != *wantStr+"x" {
						atomic.AddInt64(&caught, 1)
					}
				}
				// and out again: MarshalJSON must be read by Go as the same string
				if mb, merr := leaf.MarshalJSON(); merr != nil {
					r.Violation(class+" marshal", fmt.Sprintf("the value decoded from %q does not marshal: %v", doc, merr), map[string]any{"json": doc})
				} else {
					var back string
					if uerr := json.Unmarshal(mb, &back); uerr != nil || back != *wantStr {
						r.Violation(class+" marshal", fmt.Sprintf("the value decoded from %q marshals to %s, which Go reads as %q (%v)", doc, mb, back, uerr), map[string]any{"json": doc})
					}
				}
				continue
			}
			got, ok := ratOfValue(leaf)
			isInt := leaf.Kind() == cue.IntKind
			if !ok || got.Cmp(wantNum) != 0 || isInt != wantInt {
				r.Violation(class, fmt.Sprintf("%q decodes to %v (int=%v), the grammar denotes %s (int=%v)", doc, leaf, isInt, wantNum.FloatString(6), wantInt), map[string]any{"json": doc})
			}
		}
	}
	// strings
	res, err := kit.RunTLC(kit.TLCOpts{Module: "JsonText", CfgText: fmt.Sprintf("INIT Init\nNEXT Next\nCONSTANTS MaxAtoms = %d Part = \"string\"\nINVARIANT DenOK\n", kit.Pick(r, 2, 3)), Dump: true, Timeout: 20 * time.Minute})
	if err != nil || res.TimedOut || !res.OK() {
		r.Fatal("JsonText(string) model: %v %s\n%s", err, res.Violation, res.Tail(20))
	}
	r.AddTLC("JsonText string", res)
	ctxs := make([]*cue.Context, 16)
	for i := range ctxs {
		ctxs[i] = cuecontext.New()
	}
	counts := make([]int, 16)
	_, err = kit.ForEachState(res.DumpPath, nil, 16, func(w int, st tlaval.State) {
		counts[w]++
		if counts[w]%2000 == 0 {
			ctxs[w] = cuecontext.New()
		}
		var body strings.Builder
		var den []rune
		for _, i := range tlaval.IntSeq(st["txt"]) {
			body.WriteString(atoms[i-1].t)
			den = append(den, rune(atoms[i-1].cp))
		}
		verdict := tlaval.AsStr(st["verdict"])
		want := string(den)
		switch verdict {
		case "valid":
			atomic.AddInt64(&valid, 1)
		case "invalid":
			atomic.AddInt64(&invalid, 1)
		default:
			atomic.AddInt64(&anyv, 1)
		}
		func() {
			defer func() {
				if p := recover(); p != nil {
					r.Violation("json panic "+body.String(), fmt.Sprintf("decoding %q panics: %v", body.String(), p), map[string]any{"json": `"` + body.String() + `"`})
				}
			}()
			judge(w, ctxs, decName+" text "+fmt.Sprint(st["txt"])+" ", `"`+body.String()+`"`, verdict, &want, nil, false)
		}()
	})
	res.Cleanup()
	if err != nil {
		r.Fatal("JsonText dump: %v", err)
	}
	// numbers
	res, err = kit.RunTLC(kit.TLCOpts{Module: "JsonText", CfgText: "INIT Init\nNEXT Next\nCONSTANTS MaxAtoms = 0 Part = \"number\"\n", Dump: true, Timeout: 10 * time.Minute})
	if err != nil || res.TimedOut || !res.OK() {
		r.Fatal("JsonText(number) model: %v %s\n%s", err, res.Violation, res.Tail(20))
	}
	r.AddTLC("JsonText number", res)
	_, err = kit.ForEachState(res.DumpPath, nil, 1, func(w int, st tlaval.State) {
		rec := tlaval.AsRec(st["txt"])
		if b, ok := rec["bad"]; ok {
			atomic.AddInt64(&invalid, 1)
			judge(0, ctxs, decName+" number ", bad[tlaval.AsInt(b)-1], "invalid", nil, nil, false)
			return
		}
		atomic.AddInt64(&valid, 1)
		sign, ip, fr, ex := signs[tlaval.AsInt(rec["sign"])-1], ints[tlaval.AsInt(rec["ip"])-1], fracs[tlaval.AsInt(rec["frac"])-1], exps[tlaval.AsInt(rec["exp"])-1]
		text := sign + ip + fr + ex
		den := tlaval.IntSeq(st["den"])
		mant, _ := new(big.Int).SetString(ip+strings.TrimPrefix(fr, "."), 10)
		want := new(big.Rat).SetInt(mant)
		p10 := new(big.Rat).SetInt(new(big.Int).Exp(big.NewInt(10), big.NewInt(int64(abs64(den[1]))), nil))
		if den[1] >= 0 {
			want.Mul(want, p10)
		} else {
			want.Quo(want, p10)
		}
		if sign == "-" {
			want.Neg(want)
		}
		judge(0, ctxs, decName+" number "+text+" ", text, "valid", nil, want, den[0] == 1)
	})
	res.Cleanup()
	if err != nil {
		r.Fatal("JsonText dump: %v", err)
	}
	if (canary == 0 && r.Violations() == 0) || caught != canary {
		r.Fatal("JsonText canary: %d of %d perturbed denotations noticed", caught, canary)
	}
	r.Set("json_text_cases", int(cases))
	r.Set("json_text_valid", int(valid))
	r.Set("json_text_invalid", int(invalid))
	r.Set("json_text_lone_surrogates", int(anyv))
}

package main

import (
	"bytes"
	"encoding/json"
	"fmt"
	"math/big"
	"math/rand"
	"os"
	"os/exec"
	"path/filepath"
	"sort"
	"strings"
	"sync/atomic"
	"time"
	"unicode/utf8"

	"cuelang.org/go/cue"
	"cuelang.org/go/cue/cuecontext"
	cuejson "cuelang.org/go/encoding/json"
	cueyaml "cuelang.org/go/encoding/yaml"
	"cuelang.org/go/verifharness/kit"
	"cuelang.org/go/verifharness/tlaval"
	yamlv3 "go.yaml.in/yaml/v3"
)

func init() {
	register("C10", "exploration", func(r *kit.Run) { checkCodec(r, "json") })
	register("C11", "exploration", func(r *kit.Run) { checkCodec(r, "yaml") })
	register("C12", "exploration", func(r *kit.Run) { checkCodec(r, "cli") })
}

// ---- ground-truth data ----

type dval struct {
	Kind  string // str num null bool list obj
	S     string
	Num   string // literal text
	B     bool
	Items []dval
	Keys  []string
}

var codecPools = map[string][]string{
	"plain":      {"a", "hello world", "Zz9"},
	"empty":      {""},
	"ws-only":    {" ", "  ", "\t", " \t "},
	"newline":    {"\n", "a\nb", "\n\n", "a\n", "\na", "a\n\n", "a\r\nb", "line1\n  indented\nline3\n", "\n a", " a\nb", "\n  a\n b", "a\n\n\t\nb", "a\n\t\nb\n\nc", "x\n\u00a0\n\ny", "a\n \nb\n\nc", "a\n\u3000\n\n"},
	"yaml-bool":  {"true", "yes", "No", "on", "OFF", "y", "n", "~", "null", "Null", "NULL", "False", "TRUE"},
	"yaml-num":   {"1", "0x1F", "1e3", "1_000", ".5", "+1", "0o17", "-0", "1.0", ".inf", "-.Inf", ".NaN", "0b101", "190:20:30", "012", "1.", "+.5"},
	"yaml-date":  {"2001-12-14", "2001-12-14t21:59:43.10-05:00", "2001-12-14 21:59:43.10 -5"},
	"doc-marker": {"---", "...", "--- a", "---\na", "a\n---\nb", "a\n...\n", "...a", "... a", "a..."},
	"ind-first":  {"- a", "? a", ": a", "# a", "& a", "* a", "! a", "| a", "> a", "' a", "\" a", "% a", "@ a", "` a", "{a", "[a", "]a", "}a", ",a", "-", "?", ":", "#", "&x", "*x", "!t", "|", ">", "!!str a", "<<"},
	"ind-inner":  {"a: b", "a #b", "a - b", "a:b", "a, b", "a [b] c", "a {b}", "a: ", "a\t#b"},
	"ind-last":   {"a:", "a-", "a#", "a ", "a\t", "a,", "a]", "a}", "a |", "a<<", "a <<"},
	"control":    {"\x00", "\x01", "a\x1fb", "\x7f", "\u0085", "\x1b[0m", "\b", "\f", "\v"},
	"nonbmp":     {"😀", "𝄞", "a😀b", "\U0010FFFF"},
	"linesep":    {"\u2028", "\u2029", "\ufeff", "a\u2028b", "\ufeffa", "\u00a0", "\u200b"},
	"quotes":     {"'", "\"", "''", "a'b\"c", "\\", "\\n", "\"\"", "it's", "\\\"", "#\"", "\"#"},
	"html":       {"<script>", "a&b", "<>", "</tag>", "&amp;"},
	"long":       {strings.Repeat("long text ", 30), strings.Repeat("x", 200), strings.Repeat("word ", 40) + "\n" + strings.Repeat("more ", 30)},
	// numbers (literal text)
	"small-int": {"0", "1", "-1", "42"},
	"neg-zero":  {"-0", "-0.0"},
	"big-exp":   {"1e400", "1E-400", "-2.5e310"},
	"high-prec": {"0.1234567890123456789012345678901234567890", "3.141592653589793238462643383279", "1.0000000000000000000000000001"},
	"gt-int64":  {"9223372036854775808", "123456789012345678901234567890", "-9223372036854775809", "18446744073709551616"},
	"float-int": {"1.0", "100.0", "1e2", "-3.0"},
	"exp-forms": {"1e+21", "1e-7", "6E+23", "-2e+10", "1e21", "0.0000001", "1.5e+300", "12e-3"},
}
var codecKeyPools = map[string][]string{
	"plain":     {"k", "key2"},
	"empty":     {""},
	"yaml-bool": {"true", "null", "yes", "No", "~", "on"},
	"yaml-num":  {"1", "1.5", "0x1", "1e3", "-0"},
	"ind-first": {"- a", "? b", "#c", "&d", "*e", "!f", "[g", "{h", "|i", ">j", "'k", "\"l", "%m", "@n", "-", "...k", "<<", "k<<", "? a\nb", "...\nx", "a\n<<", "? a", "?"},
	"ind-inner": {"a: b", "a #b", "a b", "a:b"},
	"unicode":   {"é", "😀", "日本"},
	"ws":        {" ", " a", "a ", "a\nb", "\t"},
	"prefix":    {"job"},
}

type codecTables struct {
	str, num, other, keys, shapes []string
}

func (t *codecTables) leafCat(i int) string {
	all := append(append(append([]string{}, t.str...), t.num...), t.other...)
	return all[i-1]
}

func loadCodecTables(r *kit.Run) *codecTables {
	res, err := kit.RunTLC(kit.TLCOpts{Module: "DataCodec", CfgText: "INIT TablesInit\nNEXT Next\nCONSTANTS Family = \"json\" MaxSlots = 0 Sample = 0\n", Dump: true, Workers: 1, Timeout: 5 * time.Minute})
	defer res.Cleanup()
	if err != nil || !res.OK() {
		r.Fatal("DataCodec tables: %v\n%s", err, res.Tail(30))
	}
	t := &codecTables{}
	kit.ForEachState(res.DumpPath, nil, 1, func(_ int, st tlaval.State) {
		rec := tlaval.AsRec(st["doc"])
		conv := func(v tlaval.Value) (out []string) {
			for _, x := range tlaval.AsSeq(v) {
				out = append(out, tlaval.AsStr(x))
			}
			return
		}
		t.str, t.num, t.other, t.keys, t.shapes = conv(rec["strcats"]), conv(rec["numcats"]), conv(rec["othercats"]), conv(rec["keycats"]), conv(rec["shapes"])
	})
	for _, c := range append(append([]string{}, t.str...), t.num...) {
		if len(codecPools[c]) == 0 {
			r.Fatal("no pool for category %q of DataCodec.tla", c)
		}
	}
	for _, c := range t.keys {
		if len(codecKeyPools[c]) == 0 {
			r.Fatal("no key pool for category %q", c)
		}
	}
	return t
}

func (t *codecTables) leaf(cat string, pick func(n int) int) dval {
	switch cat {
	case "null":
		return dval{Kind: "null"}
	case "true":
		return dval{Kind: "bool", B: true}
	case "false":
		return dval{Kind: "bool"}
	}
	pool := codecPools[cat]
	x := pool[pick(len(pool))]
	for _, n := range t.num {
		if n == cat {
			return dval{Kind: "num", Num: x}
		}
	}
	return dval{Kind: "str", S: x}
}

// buildDoc instantiates a document state with concrete pool members.
func (t *codecTables) buildDoc(slots []tlaval.Value, pick func(n int) int) dval {
	doc := dval{Kind: "obj"}
	used := map[string]bool{}
	for i, s := range slots {
		r := tlaval.AsRec(s)
		kp := codecKeyPools[t.keys[tlaval.AsInt(r["k"])-1]]
		key := kp[pick(len(kp))]
		for used[key] {
			key += fmt.Sprint(i)
		}
		used[key] = true
		a := t.leaf(t.leafCat(tlaval.AsInt(r["c1"])), pick)
		b := t.leaf(t.leafCat(tlaval.AsInt(r["c2"])), pick)
		var v dval
		switch t.shapes[tlaval.AsInt(r["sh"])-1] {
		case "leaf":
			v = a
		case "list2":
			v = dval{Kind: "list", Items: []dval{a, b}}
		case "obj1":
			v = dval{Kind: "obj", Keys: []string{"in" + fmt.Sprint(i)}, Items: []dval{a}}
			if b.Kind == "str" && utf8.ValidString(b.S) && !used["\x00"+b.S] {
				v.Keys, v.Items = []string{b.S}, []dval{a} // the second leaf serves as nested key when it is a string
			}
		case "list-of-list":
			v = dval{Kind: "list", Items: []dval{{Kind: "list", Items: []dval{a}}, {Kind: "list"}, b}}
		case "list-of-obj":
			v = dval{Kind: "list", Items: []dval{{Kind: "obj", Keys: []string{"n", "m"}, Items: []dval{a, b}}, {Kind: "obj", Keys: []string{"n"}, Items: []dval{b}}}}
		case "obj-of-obj":
			v = dval{Kind: "obj", Keys: []string{"t", "u"}, Items: []dval{{Kind: "obj", Keys: []string{"n"}, Items: []dval{a}}, b}}
		case "obj-of-list":
			v = dval{Kind: "obj", Keys: []string{"l", "e"}, Items: []dval{{Kind: "list", Items: []dval{a, b}}, {Kind: "obj"}}}
		}
		doc.Keys = append(doc.Keys, key)
		doc.Items = append(doc.Items, v)
	}
	return doc
}

// ---- rendering ground truth as CUE source, independent of cue/literal ----

func cueString(s string) string {
	var b strings.Builder
	b.WriteByte('"')
	for _, r := range s {
		switch {
		case r == '"' || r == '\\':
			b.WriteByte('\\')
			b.WriteRune(r)
		case r < 0x20 || r == 0x7f || r == 0x85 || r == 0x2028 || r == 0x2029 || r == 0xfeff || r == 0x200b || r == 0xa0:
			fmt.Fprintf(&b, "\\u%04x", r)
		default:
			b.WriteRune(r)
		}
	}
	b.WriteByte('"')
	return b.String()
}

func (d dval) cue() string {
	switch d.Kind {
	case "str":
		return cueString(d.S)
	case "num":
		if strings.HasPrefix(d.Num, "-") {
			return "(" + d.Num + ")"
		}
		return d.Num
	case "null":
		return "null"
	case "bool":
		return fmt.Sprint(d.B)
	case "list":
		var es []string
		for _, e := range d.Items {
			es = append(es, e.cue())
		}
		return "[" + strings.Join(es, ", ") + "]"
	}
	var fs []string
	for i, k := range d.Keys {
		fs = append(fs, cueString(k)+": "+d.Items[i].cue())
	}
	return "{" + strings.Join(fs, ", ") + "}"
}

// goJSON renders the ground truth with Go's encoding/json for strings.
func (d dval) goJSON() string {
	switch d.Kind {
	case "str":
		b, _ := json.Marshal(d.S)
		return string(b)
	case "num":
		return d.Num
	case "null":
		return "null"
	case "bool":
		return fmt.Sprint(d.B)
	case "list":
		var es []string
		for _, e := range d.Items {
			es = append(es, e.goJSON())
		}
		return "[" + strings.Join(es, ",") + "]"
	}
	var fs []string
	for i, k := range d.Keys {
		kb, _ := json.Marshal(k)
		fs = append(fs, string(kb)+":"+d.Items[i].goJSON())
	}
	return "{" + strings.Join(fs, ",") + "}"
}

// ---- decoding with independent decoders ----

func decodeJSONOrdered(b []byte) (dval, error) {
	dec := json.NewDecoder(bytes.NewReader(b))
	dec.UseNumber()
	v, err := decodeJSONValue(dec)
	if err != nil {
		return v, err
	}
	if _, err := dec.Token(); err == nil {
		return v, fmt.Errorf("trailing data after JSON value")
	}
	return v, nil
}

func decodeJSONValue(dec *json.Decoder) (dval, error) {
	tok, err := dec.Token()
	if err != nil {
		return dval{}, err
	}
	switch t := tok.(type) {
	case json.Delim:
		switch t {
		case '[':
			out := dval{Kind: "list"}
			for dec.More() {
				e, err := decodeJSONValue(dec)
				if err != nil {
					return out, err
				}
				out.Items = append(out.Items, e)
			}
			_, err := dec.Token()
			return out, err
		case '{':
			out := dval{Kind: "obj"}
			for dec.More() {
				kt, err := dec.Token()
				if err != nil {
					return out, err
				}
				e, err := decodeJSONValue(dec)
				if err != nil {
					return out, err
				}
				out.Keys = append(out.Keys, kt.(string))
				out.Items = append(out.Items, e)
			}
			_, err := dec.Token()
			return out, err
		}
	case string:
		return dval{Kind: "str", S: t}, nil
	case json.Number:
		return dval{Kind: "num", Num: string(t)}, nil
	case bool:
		return dval{Kind: "bool", B: t}, nil
	case nil:
		return dval{Kind: "null"}, nil
	}
	return dval{}, fmt.Errorf("unexpected token %v", tok)
}

func decodeYAMLNode(n *yamlv3.Node) (dval, error) {
	switch n.Kind {
	case yamlv3.DocumentNode:
		if len(n.Content) != 1 {
			return dval{}, fmt.Errorf("document with %d nodes", len(n.Content))
		}
		return decodeYAMLNode(n.Content[0])
	case yamlv3.SequenceNode:
		out := dval{Kind: "list"}
		for _, c := range n.Content {
			e, err := decodeYAMLNode(c)
			if err != nil {
				return out, err
			}
			out.Items = append(out.Items, e)
		}
		return out, nil
	case yamlv3.MappingNode:
		out := dval{Kind: "obj"}
		for i := 0; i+1 < len(n.Content); i += 2 {
			k := n.Content[i]
			if k.Kind != yamlv3.ScalarNode || (k.Tag != "!!str" && k.ShortTag() != "!!str") {
				return out, fmt.Errorf("mapping key %q is not a string (tag %s)", k.Value, k.ShortTag())
			}
			e, err := decodeYAMLNode(n.Content[i+1])
			if err != nil {
				return out, err
			}
			out.Keys = append(out.Keys, k.Value)
			out.Items = append(out.Items, e)
		}
		return out, nil
	case yamlv3.ScalarNode:
		switch n.ShortTag() {
		case "!!str":
			if n.Style == 0 {
				// an unquoted scalar beyond float64 range is still a number under the
				// YAML core schema; yaml.v3 falls back to !!str for it
				if _, ok := new(big.Rat).SetString(n.Value); ok && strings.ContainsAny(n.Value, "eE") {
					return dval{Kind: "num", Num: n.Value}, nil
				}
			}
			return dval{Kind: "str", S: n.Value}, nil
		case "!!int", "!!float":
			return dval{Kind: "num", Num: n.Value}, nil
		case "!!bool":
			return dval{Kind: "bool", B: n.Value == "true"}, nil
		case "!!null":
			return dval{Kind: "null"}, nil
		}
		return dval{}, fmt.Errorf("scalar %q with tag %s", n.Value, n.ShortTag())
	case yamlv3.AliasNode:
		return dval{}, fmt.Errorf("alias in output")
	}
	return dval{}, fmt.Errorf("unexpected YAML node kind %d", n.Kind)
}

func decodeYAMLIndependent(b []byte) (dval, error) {
	var n yamlv3.Node
	if err := yamlv3.Unmarshal(b, &n); err != nil {
		return dval{}, err
	}
	return decodeYAMLNode(&n)
}

// fromCUE projects a concrete cue.Value to data.
func fromCUE(v cue.Value) (dval, error) {
	if err := v.Validate(cue.Concrete(true)); err != nil {
		return dval{}, err
	}
	switch v.Kind() {
	case cue.StringKind:
		s, err := v.String()
		return dval{Kind: "str", S: s}, err
	case cue.IntKind, cue.FloatKind:
		txt := fmt.Sprint(v)
		if v.Kind() == cue.FloatKind && !strings.ContainsAny(txt, ".eE") {
			txt += ".0"
		}
		return dval{Kind: "num", Num: txt}, nil
	case cue.NullKind:
		return dval{Kind: "null"}, nil
	case cue.BoolKind:
		b, _ := v.Bool()
		return dval{Kind: "bool", B: b}, nil
	case cue.ListKind:
		out := dval{Kind: "list"}
		it, err := v.List()
		if err != nil {
			return out, err
		}
		for it.Next() {
			e, err := fromCUE(it.Value())
			if err != nil {
				return out, err
			}
			out.Items = append(out.Items, e)
		}
		return out, nil
	case cue.StructKind:
		out := dval{Kind: "obj"}
		it, err := v.Fields()
		if err != nil {
			return out, err
		}
		for it.Next() {
			e, err := fromCUE(it.Value())
			if err != nil {
				return out, err
			}
			out.Keys = append(out.Keys, it.Selector().Unquoted())
			out.Items = append(out.Items, e)
		}
		return out, nil
	}
	return dval{}, fmt.Errorf("unexpected kind %v", v.Kind())
}

func hasLoneNewline(d dval) bool {
	if d.Kind == "str" && strings.Trim(d.S, "\n") == "" && d.S != "" {
		return true
	}
	for _, e := range d.Items {
		if hasLoneNewline(e) {
			return true
		}
	}
	return false
}

// shrinkDoc greedily reduces a failing document (single members, neutral keys, single
// elements, unwrapped containers) while the replay still reports a problem.
func shrinkDoc(d dval, problem string, replay func(dval) string) (dval, string) {
	cands := func(d dval) []dval {
		var out []dval
		if d.Kind != "obj" {
			return nil
		}
		if len(d.Keys) > 1 {
			for i := range d.Keys {
				out = append(out, dval{Kind: "obj", Keys: []string{d.Keys[i]}, Items: []dval{d.Items[i]}})
			}
			return out
		}
		if len(d.Keys) == 0 {
			return nil
		}
		k, v := d.Keys[0], d.Items[0]
		mk := func(k string, v dval) dval { return dval{Kind: "obj", Keys: []string{k}, Items: []dval{v}} }
		if k != "k" {
			out = append(out, mk("k", v))
		}
		switch v.Kind {
		case "list":
			for _, e := range v.Items {
				out = append(out, mk(k, e))
				if len(v.Items) > 1 {
					out = append(out, mk(k, dval{Kind: "list", Items: []dval{e}}))
				}
			}
		case "obj":
			for i, e := range v.Items {
				out = append(out, mk(k, e))
				if len(v.Items) > 1 || v.Keys[i] != "k" {
					out = append(out, mk(k, mk("k", e)))
				}
				if len(v.Items) > 1 {
					out = append(out, mk(k, mk(v.Keys[i], e)))
				}
			}
		case "str":
			if v.S != "v" {
				out = append(out, mk(k, dval{Kind: "str", S: "v"}))
			}
		}
		return out
	}
	for round := 0; round < 12; round++ {
		found := false
		for _, c := range cands(d) {
			if p := replay(c); p != "" && !strings.HasPrefix(p, "TOOL:") {
				d, problem, found = c, p, true
				break
			}
		}
		if !found {
			break
		}
	}
	return d, problem
}

// anyStr / anyKey report whether some string value / object key of d satisfies pred.
func anyStr(d dval, pred func(string) bool) bool {
	if d.Kind == "str" && pred(d.S) {
		return true
	}
	for _, e := range d.Items {
		if anyStr(e, pred) {
			return true
		}
	}
	return false
}

func anyKey(d dval, pred func(string) bool) bool {
	for _, k := range d.Keys {
		if pred(k) {
			return true
		}
	}
	for _, e := range d.Items {
		if anyKey(e, pred) {
			return true
		}
	}
	return false
}

// multi-line text whose first non-empty line starts with a space: a YAML block scalar needs an
// explicit indentation indicator for it
func leadingSpaceBlock(s string) bool {
	if !strings.Contains(s, "\n") {
		return false
	}
	for _, l := range strings.Split(s, "\n") {
		if l != "" {
			return strings.HasPrefix(l, " ")
		}
	}
	return false
}

func numIsFloat(s string) bool {
	return strings.ContainsAny(s, ".eE") || strings.Contains(strings.ToLower(s), "inf")
}

// sameData compares two data trees: strings byte for byte, numbers by exact
// value and kind, objects with the same keys in the same order.
// sortKeys returns d with the members of every object in key order (TOML tables are unordered).
func sortKeys(d dval) dval {
	out := d
	out.Items = make([]dval, len(d.Items))
	for i, e := range d.Items {
		out.Items[i] = sortKeys(e)
	}
	if d.Kind == "obj" {
		idx := make([]int, len(d.Keys))
		for i := range idx {
			idx[i] = i
		}
		sort.Slice(idx, func(i, j int) bool { return d.Keys[idx[i]] < d.Keys[idx[j]] })
		keys := make([]string, len(idx))
		items := make([]dval, len(idx))
		for i, j := range idx {
			keys[i], items[i] = d.Keys[j], out.Items[j]
		}
		out.Keys, out.Items = keys, items
	}
	return out
}

func sameData(a, b dval, path string) string {
	if a.Kind != b.Kind {
		return fmt.Sprintf("%s: kind %s vs %s (%q vs %q)", path, a.Kind, b.Kind, a.S+a.Num, b.S+b.Num)
	}
	switch a.Kind {
	case "str":
		if a.S != b.S {
			return fmt.Sprintf("%s: string %q vs %q", path, a.S, b.S)
		}
	case "num":
		ra, ok1 := new(big.Rat).SetString(a.Num)
		rb, ok2 := new(big.Rat).SetString(b.Num)
		if !ok1 || !ok2 {
			return fmt.Sprintf("%s: unparsable number %q vs %q", path, a.Num, b.Num)
		}
		if ra.Cmp(rb) != 0 {
			return fmt.Sprintf("%s: number %s vs %s", path, a.Num, b.Num)
		}
		if numIsFloat(a.Num) != numIsFloat(b.Num) {
			return fmt.Sprintf("%s: number kind changed: %s vs %s", path, a.Num, b.Num)
		}
	case "bool":
		if a.B != b.B {
			return fmt.Sprintf("%s: bool %v vs %v", path, a.B, b.B)
		}
	case "list":
		if len(a.Items) != len(b.Items) {
			return fmt.Sprintf("%s: list length %d vs %d", path, len(a.Items), len(b.Items))
		}
		for i := range a.Items {
			if m := sameData(a.Items[i], b.Items[i], fmt.Sprintf("%s[%d]", path, i)); m != "" {
				return m
			}
		}
	case "obj":
		if fmt.Sprintf("%q", a.Keys) != fmt.Sprintf("%q", b.Keys) {
			return fmt.Sprintf("%s: keys %q vs %q", path, a.Keys, b.Keys)
		}
		for i := range a.Items {
			if m := sameData(a.Items[i], b.Items[i], path+"."+a.Keys[i]); m != "" {
				return m
			}
		}
	}
	return ""
}

// ---- replay of a behaviour on the API ----

func replayAPI(ctx *cue.Context, truth dval, ops []string) (problem string) {
	defer func() {
		if p := recover(); p != nil {
			problem = fmt.Sprintf("panic: %v", p)
		}
	}()
	var val cue.Value
	haveVal := false
	var data []byte
	mkVal := func() string {
		if haveVal {
			return ""
		}
		val = ctx.CompileString(truth.cue())
		if val.Err() != nil {
			return "TOOL: ground truth does not compile: " + val.Err().Error()
		}
		haveVal = true
		return ""
	}
	checkVal := func(step string) string {
		got, err := fromCUE(val)
		if err != nil {
			return step + ": value is not concrete data: " + err.Error()
		}
		if m := sameData(truth, got, "$"); m != "" {
			return step + ": " + m
		}
		return ""
	}
	for i, op := range ops {
		step := fmt.Sprintf("step %d %s", i+1, op)
		switch op {
		case "GoEncode":
			data = []byte(truth.goJSON())
		case "MarshalJSON":
			if m := mkVal(); m != "" {
				return m
			}
			b, err := val.MarshalJSON()
			if err != nil {
				return step + ": " + err.Error()
			}
			if !json.Valid(b) {
				return step + ": output is not valid JSON: " + string(b)
			}
			data = b
		case "GoDecode":
			got, err := decodeJSONOrdered(data)
			if err != nil {
				return step + ": Go's encoding/json rejects the output: " + err.Error() + ": " + string(data)
			}
			if m := sameData(truth, got, "$"); m != "" {
				return step + ": " + m + "  [json: " + string(data) + "]"
			}
		case "JSONExtract":
			expr, err := cuejson.Extract("x.json", data)
			if err != nil {
				return step + ": CUE's JSON decoder rejects a valid document: " + err.Error() + ": " + string(data)
			}
			val, haveVal = ctx.BuildExpr(expr), true
			if m := checkVal(step); m != "" {
				return m + "  [json: " + string(data) + "]"
			}
		case "YAMLEncode":
			if m := mkVal(); m != "" {
				return m
			}
			b, err := cueyaml.Encode(val)
			if err != nil {
				return step + ": " + err.Error()
			}
			data = b
			got, err := decodeYAMLIndependent(b)
			if err != nil {
				return step + ": yaml.v3 cannot read the output: " + err.Error() + "  [yaml: " + string(b) + "]"
			}
			if m := sameData(truth, got, "$"); m != "" {
				return step + " (read back with yaml.v3): " + m + "  [yaml: " + string(b) + "]"
			}
		case "YAMLExtract", "YAMLExtractOfJSON":
			f, err := cueyaml.Extract("x.yaml", data)
			if err != nil {
				return step + ": CUE's YAML decoder rejects the document: " + err.Error() + "  [" + string(data) + "]"
			}
			val, haveVal = ctx.BuildFile(f), true
			if m := checkVal(step); m != "" {
				return m + "  [input: " + string(data) + "]"
			}
		default:
			return "TOOL: unknown op " + op
		}
	}
	return ""
}

// ---- replay on the command line ----

var cueBinary string

func runCue(dir string, args ...string) (stdout, stderr []byte, code int) {
	cmd := exec.Command(cueBinary, args...)
	cmd.Dir = dir
	cmd.Env = append(os.Environ(), "CUE_CACHE_DIR="+filepath.Join(dir, ".cache"), "HOME="+dir, "GOMAXPROCS=2")
	var so, se bytes.Buffer
	cmd.Stdout, cmd.Stderr = &so, &se
	err := cmd.Run()
	if ee, ok := err.(*exec.ExitError); ok {
		code = ee.ExitCode()
	} else if err != nil {
		code = -1
	}
	return so.Bytes(), se.Bytes(), code
}

func replayCLI(truth dval, ops []string, mustFail bool) (problem string) {
	dir, err := os.MkdirTemp("", "vh-cli-")
	if err != nil {
		return "TOOL: " + err.Error()
	}
	defer os.RemoveAll(dir)
	os.MkdirAll(filepath.Join(dir, "cue.mod"), 0o755)
	os.WriteFile(filepath.Join(dir, "cue.mod", "module.cue"), []byte("module: \"example.com/p@v0\"\nlanguage: version: \"v0.9.0\"\n"), 0o644)
	var body strings.Builder
	body.WriteString("package p\n")
	for i, k := range truth.Keys {
		fmt.Fprintf(&body, "%s: %s\n", cueString(k), truth.Items[i].cue())
	}
	os.WriteFile(filepath.Join(dir, "data.cue"), []byte(body.String()), 0o644)
	// wrapped variant for -e
	os.MkdirAll(filepath.Join(dir, "w"), 0o755)
	os.WriteFile(filepath.Join(dir, "w", "w.cue"), []byte("package w\ntop: "+truth.cue()+"\nother: 1\n"), 0o644)
	cur := "data.cue" // current source file
	failed := false
	viaTOML := false
	for i, op := range ops {
		step := fmt.Sprintf("step %d %s", i+1, op)
		var out, errb []byte
		var code int
		switch {
		case strings.HasPrefix(op, "export-"):
			enc := strings.TrimPrefix(op, "export-")
			args := []string{"export", cur}
			switch enc {
			case "yaml-escape":
				enc = "yaml"
				args = append(args, "--escape")
			case "json-expr":
				enc = "json"
				args = []string{"export", "./w", "-e", "top"}
			case "yaml-pkg":
				enc = "yaml"
				if cur == "data.cue" {
					args = []string{"export", "."}
				}
			}
			if enc == "toml" {
				viaTOML = true
			}
			args = append(args, "--out", enc)
			out, errb, code = runCue(dir, args...)
			if code != 0 {
				failed = true
				if !mustFail {
					return fmt.Sprintf("%s: exit %d although the data is concrete and representable: %s", step, code, errb)
				}
				return ""
			}
			var got dval
			var derr error
			switch enc {
			case "json":
				got, derr = decodeJSONOrdered(out)
			case "yaml":
				got, derr = decodeYAMLIndependent(out)
			case "cue":
				v := cuecontext.New().CompileBytes(out)
				got, derr = fromCUE(v)
			case "toml":
				derr = nil
				got = truth // TOML output is checked through the import step
			}
			if derr != nil {
				return fmt.Sprintf("%s: output unreadable: %v  [%s]", step, derr, out)
			}
			want := truth
			if viaTOML {
				want, got = sortKeys(truth), sortKeys(got)
			}
			if m := sameData(want, got, "$"); m != "" {
				return fmt.Sprintf("%s: %s  [%s]", step, m, out)
			}
			name := fmt.Sprintf("out%d.%s", i, enc)
			os.WriteFile(filepath.Join(dir, name), out, 0o644)
			cur = name
		case strings.HasPrefix(op, "import-"):
			if strings.HasSuffix(cur, ".cue") {
				continue // exported as CUE: nothing to import
			}
			target := fmt.Sprintf("imp%d.cue", i)
			_, errb, code = runCue(dir, "import", "-f", "-o", target, cur)
			if code != 0 {
				return fmt.Sprintf("%s: cue import fails on a file cue export wrote: %s", step, errb)
			}
			cur = target
		}
	}
	if mustFail && !failed {
		return "the behaviour succeeded although an encoding cannot represent the data (an error was required)"
	}
	return ""
}

// ---- near-valid JSON that must be rejected / valid JSON that must be accepted ----

var invalidJSON = []string{`{"a":1,}`, `[1,]`, "\"a\x01b\"", `01`, `1.`, `.5`, `+1`, `NaN`, `'a'`, `{"a":1} x`, `{a:1}`, `[1 2]`, `"\x"`, `"\u12"`, `tru`, `{"a":1 /*c*/}`, `-`, `1e`, `"unterminated`, "{\"a\":\n}", `[`, `{"a"}`}
var validJSON = []string{`"😀"`, `" "`, `"\/"`, `1E+2`, `-0`, `-0.0e-0`, `{"a":{"a":{"a":[[[[1]]]]}}}`, ` [ ] `, "\t{\n}\r\n", `"\u0000"`, `{"":0}`, `{"a":1,"a":2}`, `1e400`, `0.000000000000000000000000000000000001`}

func checkCodec(r *kit.Run, family string) {
	r.Assumptions = []string{
		"documents are objects of 1 (exhaustive) or 2 (seeded sample) members over the key / shape / leaf categories of DataCodec.tla; the concrete text of a category is a seeded pick from its pool (every member in the thorough tier for single-leaf documents)",
		"the verdict after every step comes from an independent decoder (Go's encoding/json with UseNumber and ordered tokens; yaml.v3 node tags) compared with the generator's ground truth: strings byte for byte, numbers by exact rational value and int/float kind, keys in order",
		"byte-level content outside the category pools is not covered",
	}
	t := loadCodecTables(r)
	sample := kit.Pick(r, 150, 1500)
	maxSlots := 2
	if family == "cli" {
		sample = kit.Pick(r, 18, 150)
		cueBinary = filepath.Join(kit.VerifDir(), ".build", "cue")
		if _, err := os.Stat(cueBinary); err != nil {
			r.Fatal("cue binary %s missing (bin/check builds it for C12)", cueBinary)
		}
	}
	cfg := fmt.Sprintf("INIT Init\nNEXT Next\nCONSTANTS Family = %q MaxSlots = %d Sample = %d\nINVARIANT RepSanity\n", family, maxSlots, sample)
	if family != "cli" {
		// one-member documents exhaustively, two-member ones sampled: two runs
		cfg = fmt.Sprintf("INIT Init\nNEXT Next\nCONSTANTS Family = %q MaxSlots = 1 Sample = 0\nINVARIANT RepSanity\n", family)
	}
	var states []tlaval.State
	runCfg := func(c string) {
		res, err := kit.RunTLC(kit.TLCOpts{Module: "DataCodec", CfgText: c, Dump: true, Seed: r.Seed + 41, Timeout: 30 * time.Minute, Heap: "16g"})
		defer res.Cleanup()
		if err != nil || res.TimedOut || !res.OK() {
			r.Fatal("DataCodec model: %v %s\n%s", err, res.Violation, res.Tail(30))
		}
		r.AddTLC("DataCodec "+family, res)
		ch := make(chan tlaval.State, 1024)
		done := make(chan struct{})
		go func() {
			for s := range ch {
				states = append(states, s)
			}
			close(done)
		}()
		kit.ForEachState(res.DumpPath, nil, 4, func(_ int, st tlaval.State) { ch <- st })
		close(ch)
		<-done
	}
	runCfg(cfg)
	if family != "cli" {
		runCfg(fmt.Sprintf("INIT Init\nNEXT Next\nCONSTANTS Family = %q MaxSlots = 2 Sample = %d\nINVARIANT RepSanity\n", family, sample))
	}
	var runs, nontrivial int64
	perState := kit.Pick(r, 1, 3)
	if family == "cli" {
		perState = 1
	}
	workers := 16
	if family == "cli" {
		workers = 8
	}
	ctxs := make([]*cue.Context, workers)
	counts := make([]int, workers)
	kit.ParallelN(len(states), workers, func(w, i int) {
		st := states[i]
		slots := tlaval.AsSeq(st["doc"])
		var ops []string
		for _, o := range tlaval.AsSeq(st["beh"]) {
			ops = append(ops, tlaval.AsStr(o))
		}
		mustFail := tlaval.AsBool(st["mustFail"])
		for rep := 0; rep < perState; rep++ {
			rng := rand.New(rand.NewSource(r.Seed*1_000_003 + int64(i)*7 + int64(rep)))
			truth := t.buildDoc(slots, func(n int) int { return rng.Intn(n) })
			if ctxs[w] == nil || counts[w]%200 == 0 {
				ctxs[w] = cuecontext.New()
			}
			counts[w]++
			var problem string
			if family == "cli" {
				problem = replayCLI(truth, ops, mustFail)
			} else {
				problem = replayAPI(ctxs[w], truth, ops)
			}
			atomic.AddInt64(&runs, 1)
			if len(slots) > 0 {
				atomic.AddInt64(&nontrivial, 1)
			}
			if strings.HasPrefix(problem, "TOOL:") {
				r.Fatal("%s (document %s)", problem, truth.cue())
			}
			if problem != "" {
				// shrink to a smallest sub-document that still fails, so that the class names the cause
				full := truth
				truth, problem = shrinkDoc(truth, problem, func(d dval) string {
					if family == "cli" {
						return replayCLI(d, ops, mustFail)
					}
					return replayAPI(ctxs[w], d, ops)
				})
				if truth.cue() != full.cue() {
					problem += "  (shrunk from " + full.cue() + ")"
				}
			}
			if problem != "" && family != "json" && anyStr(truth, leadingSpaceBlock) {
				r.Violation("class yaml-block-scalar-leading-space", fmt.Sprintf("%v on %s: %s", ops, truth.cue(), problem), map[string]any{"document_cue": truth.cue(), "behaviour": ops})
				continue
			}
			if problem != "" && family != "json" && anyKey(truth, func(k string) bool { return strings.HasSuffix(k, "<<") }) {
				r.Violation("class yaml-key-ending-in-merge-indicator", fmt.Sprintf("%v on %s: %s", ops, truth.cue(), problem), map[string]any{"document_cue": truth.cue(), "behaviour": ops})
				continue
			}
			if dots := func(k string) bool { return strings.HasPrefix(k, "...") && k != "..." }; problem != "" && family != "json" && (anyKey(truth, dots) || anyStr(truth, dots)) {
				r.Violation("class yaml-leading-dots", fmt.Sprintf("%v on %s: %s", ops, truth.cue(), problem), map[string]any{"document_cue": truth.cue(), "behaviour": ops})
				continue
			}
			if problem != "" && family != "json" && hasLoneNewline(truth) {
				r.Violation("class yaml-lone-newline", fmt.Sprintf("%v on %s: %s", ops, truth.cue(), problem), map[string]any{"document_cue": truth.cue(), "behaviour": ops})
				continue
			}
			if problem != "" && strings.Contains(truth.goJSON(), "\ufeff") && (strings.Contains(problem, "rejects a valid document") || strings.Contains(problem, "rejects the document") || strings.Contains(problem, "cue import fails")) {
				r.Violation("class bom-in-string", fmt.Sprintf("%v on %s: %s", ops, truth.cue(), problem), map[string]any{"document_cue": truth.cue(), "behaviour": ops})
				continue
			}
			if problem != "" {
				r.Violation(fmt.Sprintf("%s %v %s", family, ops, truth.cue()), problem, map[string]any{"document_cue": truth.cue(), "behaviour": ops})
			}
			if i%2000 == 0 && rep == 0 {
				r.Sample(map[string]any{"document_cue": truth.cue(), "behaviour": ops})
			}
		}
	})
	// JSON validity in both directions (C10)
	if family == "json" {
		for _, bad := range invalidJSON {
			if _, err := cuejson.Extract("bad.json", []byte(bad)); err == nil {
				r.Violation("json accepts "+bad, "CUE's JSON decoder accepts a document that RFC 8259 does not allow", map[string]any{"json": bad})
			}
			if json.Valid([]byte(bad)) {
				r.Fatal("harness: %q is valid JSON for Go", bad)
			}
		}
		ctx := cuecontext.New()
		for _, good := range validJSON {
			expr, err := cuejson.Extract("good.json", []byte(good))
			if err != nil {
				r.Violation("json rejects "+good, "CUE's JSON decoder rejects a valid document: "+err.Error(), map[string]any{"json": good})
				continue
			}
			if !strings.Contains(good, `"a":1,"a":2`) {
				want, derr := decodeJSONOrdered([]byte(good))
				got, gerr := fromCUE(ctx.BuildExpr(expr))
				if derr == nil && gerr == nil {
					if m := sameData(want, got, "$"); m != "" {
						r.Violation("json meaning "+good, "decoded differently from Go's encoding/json: "+m, map[string]any{"json": good})
					}
				} else if gerr != nil {
					r.Violation("json meaning "+good, "decoded value is not concrete data: "+gerr.Error(), map[string]any{"json": good})
				}
			}
		}
		r.Add("json_validity_cases", len(invalidJSON)+len(validJSON))
		checkJSONText(r, false)
	}
	if family == "yaml" {
		// "any JSON document fed to the YAML decoder denotes the same data": the JSON scalar grammar again
		checkJSONText(r, true)
	}
	// canary: the comparison must notice a changed string, number kind and key order
	a := dval{Kind: "obj", Keys: []string{"a", "b"}, Items: []dval{{Kind: "str", S: "1"}, {Kind: "num", Num: "1.0"}}}
	b1 := dval{Kind: "obj", Keys: []string{"a", "b"}, Items: []dval{{Kind: "num", Num: "1"}, {Kind: "num", Num: "1.0"}}}
	b2 := dval{Kind: "obj", Keys: []string{"a", "b"}, Items: []dval{{Kind: "str", S: "1"}, {Kind: "num", Num: "1"}}}
	b3 := dval{Kind: "obj", Keys: []string{"b", "a"}, Items: []dval{{Kind: "num", Num: "1.0"}, {Kind: "str", S: "1"}}}
	if sameData(a, b1, "$") == "" || sameData(a, b2, "$") == "" || sameData(a, b3, "$") == "" || sameData(a, a, "$") != "" {
		r.Fatal("canary: the data comparison misses a changed scalar kind, number kind or key order")
	}
	r.Set("evaluations", int(runs))
	r.Set("distinct_nontrivial", len(states))
	r.Set("canaries_rejected", 3)
	r.Set("rule", fmt.Sprintf("states of DataCodec.tla (family %s): every one-member document x behaviour, plus a seeded sample of two-member documents (for the CLI: a seeded sample of both); each state is instantiated %d time(s) with seeded pool members and replayed; after every step the produced bytes / value are compared with the ground truth through an independent decoder; distinct_nontrivial = model states replayed", family, perState))
}

package main

import (
	"context"
	"encoding/json"
	"errors"
	"fmt"
	"os"
	"sort"
	"strings"
	"time"

	"cuelang.org/go/cue"
	"cuelang.org/go/cue/cuecontext"
	"cuelang.org/go/tools/flow"
)

// flowCase is one workflow of Flow.tla: tasks 1..N, deps[t] = tasks t
// references, via[t][d] = how (1 direct, 2 through a nested non-task field,
// 3 through a computed field, 4 a list-valued field, 5 a list through a nested field), latentOf[t] = task whose result must be
// filled before t exists (0 = present from the start), failing = task whose
// runner returns an error (0 = none).
type flowCase struct {
	N        int     `json:"n"`
	Deps     [][]int `json:"deps"`     // index t-1 -> sorted deps
	Via      [][]int `json:"via"`      // index t-1 -> parallel to Deps
	LatentOf []int   `json:"latentOf"` // index t-1
	Failing  int     `json:"failing"`
	// IgnoreConcrete is flow.Config.IgnoreConcrete (as cue cmd sets it): references to concrete
	// scalars are no dependencies; structs and lists still are
	IgnoreConcrete bool `json:"ignoreConcrete"`
}

type flowEvent struct {
	Ev   string   `json:"ev"` // Update | Start | Finish | End
	T    int      `json:"t"`
	St   []string `json:"st"`   // Update: state per task ("Absent" if unknown to the controller)
	Seen []int    `json:"seen"` // Start: deps whose result was concrete in the value handed to the runner
	OK   bool     `json:"ok"`   // End: Run returned nil ; Finish: runner returns nil
	Err  string   `json:"err"`  // End: class of error: "" | "cycle" | "task" | "other"
	Fin  bool     `json:"fin"`  // End: final configuration == initial & all results
}

func (c *flowCase) render() string {
	var b strings.Builder
	children := map[int][]int{}
	for t := 1; t <= c.N; t++ {
		children[c.LatentOf[t-1]] = append(children[c.LatentOf[t-1]], t)
	}
	var emit func(parent int, indent string)
	emit = func(parent int, indent string) {
		for _, t := range children[parent] {
			var ins []string
			for i, d := range c.Deps[t-1] {
				switch c.Via[t-1][i] {
				case 2:
					fmt.Fprintf(&b, "%smid%d_%d: x: y: t%d.out\n", indent, t, d, d)
					ins = append(ins, fmt.Sprintf("d%d: mid%d_%d.x.y", d, t, d))
				case 3:
					ins = append(ins, fmt.Sprintf("d%d: \"pre-\" + t%d.out", d, d))
				case 4:
					// the dependency is a list-valued field of the other task
					ins = append(ins, fmt.Sprintf("d%d: t%d.outs", d, d))
				case 5:
					fmt.Fprintf(&b, "%smid%d_%d: l: t%d.outs\n", indent, t, d, d)
					ins = append(ins, fmt.Sprintf("d%d: mid%d_%d.l", d, t, d))
				default:
					ins = append(ins, fmt.Sprintf("d%d: t%d.out", d, d))
				}
			}
			fmt.Fprintf(&b, "%st%d: {$id: \"t\", in: {%s}, out: string, outs: [...string]}\n", indent, t, strings.Join(ins, ", "))
			if len(children[t]) > 0 {
				fmt.Fprintf(&b, "%sif t%d.out != _|_ {\n", indent, t)
				emit(t, indent+"\t")
				fmt.Fprintf(&b, "%s}\n", indent)
			}
		}
	}
	emit(0, "")
	return b.String()
}

func taskNum(p cue.Path) int {
	sels := p.Selectors()
	if len(sels) == 0 {
		return 0
	}
	var n int
	fmt.Sscanf(sels[len(sels)-1].String(), "t%d", &n)
	return n
}

// runFlow runs the workflow on the real tools/flow controller with gated
// runners. pick chooses which running task finishes next.
func runFlow(c *flowCase, pick func(running []int) int) ([]flowEvent, error) {
	ctx := cuecontext.New()
	src := c.render()
	v := ctx.CompileString(src)
	if v.Err() != nil {
		return nil, fmt.Errorf("workflow does not compile: %v\n%s", v.Err(), src)
	}
	type startMsg struct {
		t    int
		seen []int
	}
	startCh := make(chan startMsg, c.N)
	updCh := make(chan flowEvent, 4)
	gates := make([]chan bool, c.N+1)
	for i := range gates {
		gates[i] = make(chan bool, 1)
	}
	depSet := func(t int) []int { return c.Deps[t-1] }
	cfg := &flow.Config{
		IgnoreConcrete: c.IgnoreConcrete,
		UpdateFunc: func(ctl *flow.Controller, t *flow.Task) error {
			e := flowEvent{Ev: "Update", St: make([]string, c.N)}
			for i := range e.St {
				e.St[i] = "Absent"
			}
			for _, tk := range ctl.Tasks() {
				e.St[taskNum(tk.Path())-1] = tk.State().String()
			}
			if t != nil {
				e.T = taskNum(t.Path())
			}
			updCh <- e
			return nil
		},
	}
	ctl := flow.New(cfg, v, func(v cue.Value) (flow.Runner, error) {
		if !v.LookupPath(cue.MakePath(cue.Str("$id"))).Exists() {
			return nil, nil
		}
		return flow.RunnerFunc(func(t *flow.Task) error {
			n := taskNum(t.Path())
			var seen []int
			for i, d := range depSet(n) {
				in := t.Value().LookupPath(cue.MakePath(cue.Str("in"), cue.Str(fmt.Sprintf("d%d", d))))
				if k := c.Via[n-1][i]; k == 4 || k == 5 {
					// a list dependency: its single element is the producer's result
					if l, err := in.List(); err == nil && l.Next() {
						if s, err := l.Value().String(); err == nil && s == fmt.Sprintf("r%d", d) {
							seen = append(seen, d)
						}
					}
					continue
				}
				s, err := in.String()
				want := fmt.Sprintf("r%d", d)
				if c.Via[n-1][i] == 3 {
					want = "pre-" + want
				}
				if err == nil && s == want {
					seen = append(seen, d)
				}
			}
			startCh <- startMsg{n, seen}
			ok := <-gates[n]
			if !ok {
				return errors.New("injected task failure")
			}
			return t.Fill(map[string]any{"out": fmt.Sprintf("r%d", n), "outs": []string{fmt.Sprintf("r%d", n)}})
		}), nil
	})
	var trace []flowEvent
	doneCh := make(chan error, 1)
	go func() { doneCh <- ctl.Run(context.Background()) }()
	running := map[int]bool{}
	timeout := time.After(20 * time.Second)
	finish := func(err error) ([]flowEvent, error) {
		// callbacks issued before Run returned are already queued; they
		// precede the End event
		for drained := false; !drained; {
			select {
			case u := <-updCh:
				trace = append(trace, u)
			default:
				drained = true
			}
		}
		e := flowEvent{Ev: "End", OK: err == nil}
		if err != nil {
			switch {
			case strings.Contains(err.Error(), "cyclic task"):
				e.Err = "cycle"
			case strings.Contains(err.Error(), "injected task failure"):
				e.Err = "task"
			default:
				e.Err = "other: " + err.Error()
			}
		} else {
			// final configuration = initial one unified with all results
			fin := true
			final := ctl.Value()
			want := v
			for t := 1; t <= c.N; t++ {
				want = want.FillPath(cue.MakePath(cue.Str(fmt.Sprintf("t%d", t)), cue.Str("out")), fmt.Sprintf("r%d", t))
				want = want.FillPath(cue.MakePath(cue.Str(fmt.Sprintf("t%d", t)), cue.Str("outs")), []string{fmt.Sprintf("r%d", t)})
			}
			// compare through export of all task fields
			for t := 1; t <= c.N; t++ {
				p := cue.MakePath(cue.Str(fmt.Sprintf("t%d", t)))
				a, errA := final.LookupPath(p).MarshalJSON()
				bb, errB := want.LookupPath(p).MarshalJSON()
				if c.LatentOf[t-1] != 0 {
					// latent tasks are not addressable from the top in `want` before
					// their guard resolves; compare the filled output only
					s, err := final.LookupPath(cue.MakePath(cue.Str(fmt.Sprintf("t%d", t)), cue.Str("out"))).String()
					if err != nil || s != fmt.Sprintf("r%d", t) {
						fin = false
					}
					continue
				}
				if errA != nil || errB != nil || string(a) != string(bb) {
					fin = false
				}
			}
			e.Fin = fin
		}
		trace = append(trace, e)
		return trace, nil
	}
	for {
		// wait for the next controller callback or the end of the run
		var upd flowEvent
		select {
		case upd = <-updCh:
		case err := <-doneCh:
			return finish(err)
		case <-timeout:
			return trace, errors.New("timeout: controller neither calls back nor returns (deadlock)")
		}
		trace = append(trace, upd)
		ready := 0
		for _, s := range upd.St {
			if s == "Ready" {
				ready++
			}
		}
		var starts []startMsg
		for i := 0; i < ready; i++ {
			select {
			case m := <-startCh:
				starts = append(starts, m)
			case err := <-doneCh:
				return finish(err)
			case <-timeout:
				return trace, errors.New("timeout: a Ready task was never started")
			}
		}
		sort.Slice(starts, func(i, j int) bool { return starts[i].t < starts[j].t })
		for _, m := range starts {
			running[m.t] = true
			if m.seen == nil {
				m.seen = []int{}
			}
			trace = append(trace, flowEvent{Ev: "Start", T: m.t, Seen: m.seen})
		}
		// a start that nobody announced (a task run twice, or run while not Ready)
		select {
		case m := <-startCh:
			trace = append(trace, flowEvent{Ev: "Start", T: m.t, Seen: m.seen})
			running[m.t] = true
		case <-time.After(2 * time.Millisecond):
		}
		if len(running) == 0 {
			select {
			case err := <-doneCh:
				return finish(err)
			case <-timeout:
				return trace, errors.New("timeout: nothing running and Run does not return")
			}
		}
		var rs []int
		for t := range running {
			rs = append(rs, t)
		}
		sort.Ints(rs)
		t := pick(rs)
		delete(running, t)
		ok := t != c.Failing
		trace = append(trace, flowEvent{Ev: "Finish", T: t, OK: ok})
		gates[t] <- ok
	}
}

func init() {
	workers["flowdebug"] = func(args []string) {
		var c flowCase
		if err := json.Unmarshal([]byte(args[0]), &c); err != nil {
			fmt.Println(err)
			os.Exit(2)
		}
		fmt.Println(c.render())
		tr, err := runFlow(&c, func(r []int) int { return r[len(r)-1] })
		for _, e := range tr {
			b, _ := json.Marshal(e)
			fmt.Println(string(b))
		}
		fmt.Println("err:", err)
	}
}

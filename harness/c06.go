package main

import (
	"fmt"
	"math/big"
	"strconv"
	"strings"
	"sync/atomic"
	"time"

	"cuelang.org/go/cue"
	"cuelang.org/go/cue/cuecontext"
	"cuelang.org/go/verifharness/kit"
	"cuelang.org/go/verifharness/tlaval"
)

func init() { register("C06", "model_checking", checkC06) }

func arithNumText(v tlaval.Value) string {
	r := tlaval.AsRec(v)
	n := tlaval.AsInt(r["n"])
	if tlaval.AsStr(r["k"]) == "int" {
		return fmt.Sprint(n / 4)
	}
	return quarter(n)
}

func paren(s string) string {
	if strings.HasPrefix(s, "-") {
		return "(" + s + ")"
	}
	return s
}

// round34 rounds q to 34 significant decimal digits (ties away from zero;
// ties do not occur for the quotients of small integers unless exact).
func round34(q *big.Rat) *big.Rat {
	if q.Sign() == 0 {
		return new(big.Rat)
	}
	abs := new(big.Rat).Abs(q)
	// find e with 10^33 <= abs*10^e < 10^34
	e := 0
	lo := new(big.Rat).SetInt(new(big.Int).Exp(big.NewInt(10), big.NewInt(33), nil))
	hi := new(big.Rat).SetInt(new(big.Int).Exp(big.NewInt(10), big.NewInt(34), nil))
	ten := big.NewRat(10, 1)
	x := new(big.Rat).Set(abs)
	for x.Cmp(lo) < 0 {
		x.Mul(x, ten)
		e++
	}
	for x.Cmp(hi) >= 0 {
		x.Quo(x, ten)
		e--
	}
	// n = floor(x + 1/2)
	x.Add(x, big.NewRat(1, 2))
	n := new(big.Int).Quo(x.Num(), x.Denom())
	out := new(big.Rat).SetInt(n)
	scale := new(big.Rat).SetInt(new(big.Int).Exp(big.NewInt(10), big.NewInt(int64(abs64(e))), nil))
	if e >= 0 {
		out.Quo(out, scale)
	} else {
		out.Mul(out, scale)
	}
	if q.Sign() < 0 {
		out.Neg(out)
	}
	return out
}

func abs64(x int) int {
	if x < 0 {
		return -x
	}
	return x
}

func ratOfValue(v cue.Value) (*big.Rat, bool) {
	txt := fmt.Sprint(v)
	r, ok := new(big.Rat).SetString(txt)
	return r, ok
}

func checkC06(r *kit.Run) {
	r.Assumptions = []string{
		"operands: ints -3..3 and decimals at quarter steps in [-2, 2]; exactness at large magnitude through operands B+i with B in {2^63, 2^64, 10^34, 10^400}; literal spellings built from a small structural alphabet",
		"the quotient oracle is the exact fraction of the model rounded to 34 significant digits with math/big; pkg/math beyond div/mod/quo/rem and random operands with hundreds of digits are not covered (TLC integers are 32 bit)",
	}
	ctx := cuecontext.New()
	var total, nontrivial int
	// ---- binop ----
	run := func(part string) (*kit.TLCResult, []tlaval.State) {
		res, err := kit.RunTLC(kit.TLCOpts{Module: "CueArith", CfgText: fmt.Sprintf("INIT Init\nNEXT Next\nCONSTANT Part = %q\nINVARIANTS DivisionIdentities OrderTotal\n", part), Dump: true, Workers: 4, Timeout: 10 * time.Minute})
		if err != nil || res.TimedOut || !res.OK() {
			out := res.Tail(30)
			res.Cleanup()
			r.Fatal("CueArith(%s) model: %v %s\n%s", part, err, res.Violation, out)
		}
		r.AddTLC("CueArith "+part, res)
		var sts []tlaval.State
		ch := make(chan tlaval.State, 256)
		done := make(chan struct{})
		go func() {
			for s := range ch {
				sts = append(sts, s)
			}
			close(done)
		}()
		kit.ForEachState(res.DumpPath, nil, 2, func(_ int, st tlaval.State) { ch <- st })
		close(ch)
		<-done
		res.Cleanup()
		return res, sts
	}
	_, sts := run("binop")
	var canary, caught int64
	for i, st := range sts {
		op := tlaval.AsStr(st["op"])
		a, b := arithNumText(st["a"]), arithNumText(st["b"])
		var expr string
		switch op {
		case "div", "mod", "quo", "rem":
			expr = fmt.Sprintf("%s(%s, %s)", op, a, b)
		default:
			expr = fmt.Sprintf("%s %s %s", paren(a), op, paren(b))
		}
		total++
		wantErr := tlaval.AsBool(st["err"])
		kind := tlaval.AsStr(st["kind"])
		resv := tlaval.IntSeq(st["res"])
		v := ctx.CompileString("x: " + expr).LookupPath(cue.ParsePath("x"))
		if i%200 == 0 {
			ctx = cuecontext.New()
		}
		if wantErr {
			if v.Err() == nil {
				r.Violation("arith "+expr, fmt.Sprintf("%s evaluates to %v, the spec requires an error", expr, v), map[string]any{"expr": expr})
			}
			continue
		}
		nontrivial++
		if v.Err() != nil {
			r.Violation("arith "+expr, fmt.Sprintf("%s is an error (%v), the spec gives %d/%d", expr, v.Err(), resv[0], resv[1]), map[string]any{"expr": expr})
			continue
		}
		if kind == "bool" {
			got, err := v.Bool()
			if err != nil || got != (resv[0] == 1) {
				r.Violation("arith "+expr, fmt.Sprintf("%s = %v, comparison by value gives %v", expr, v, resv[0] == 1), map[string]any{"expr": expr})
			}
			continue
		}
		gotKind := "float"
		if v.Kind() == cue.IntKind {
			gotKind = "int"
		}
		if gotKind != kind {
			r.Violation("arith kind "+expr, fmt.Sprintf("%s has kind %s, the spec says %s (value %v)", expr, gotKind, kind, v), map[string]any{"expr": expr})
		}
		got, ok := ratOfValue(v)
		want := round34(big.NewRat(int64(resv[0]), int64(resv[1])))
		if !ok || got.Cmp(want) != 0 {
			r.Violation("arith value "+expr, fmt.Sprintf("%s = %v, exact arithmetic (rounded to 34 digits) gives %s", expr, v, want.FloatString(40)), map[string]any{"expr": expr})
		}
		if i%50 == 0 {
			atomic.AddInt64(&canary, 1)
			off := new(big.Rat).Add(want, big.NewRat(1, 1000000))
			if !ok || got.Cmp(off) != 0 {
				atomic.AddInt64(&caught, 1)
			}
		}
		// printing and reading back gives the same number, also through JSON
		back := ctx.CompileString(fmt.Sprint(v))
		if br, ok2 := ratOfValue(back); !ok2 || br.Cmp(got) != 0 || back.Kind() != v.Kind() {
			r.Violation("arith print "+expr, fmt.Sprintf("%s prints as %v which reads back as %v", expr, v, back), map[string]any{"expr": expr})
		}
		if jb, err := v.MarshalJSON(); err != nil {
			r.Violation("arith json "+expr, "MarshalJSON: "+err.Error(), map[string]any{"expr": expr})
		} else if jr, ok3 := new(big.Rat).SetString(string(jb)); !ok3 || jr.Cmp(got) != 0 {
			r.Violation("arith json "+expr, fmt.Sprintf("%s marshals to %s, value %v", expr, jb, v), map[string]any{"expr": expr})
		}
		if i%1500 == 0 {
			r.Sample(map[string]any{"expr": expr, "spec_kind": kind, "spec_value": fmt.Sprintf("%d/%d", resv[0], resv[1]), "evaluator": fmt.Sprint(v)})
		}
	}
	if (canary == 0 && r.Violations() == 0) || caught != canary {
		r.Fatal("canary: %d of %d perturbed expectations noticed", caught, canary)
	}
	// ---- symbolic boundaries ----
	_, sts = run("symbolic")
	bs := []*big.Int{new(big.Int).Lsh(big.NewInt(1), 63), new(big.Int).Lsh(big.NewInt(1), 64),
		new(big.Int).Exp(big.NewInt(10), big.NewInt(34), nil), new(big.Int).Exp(big.NewInt(10), big.NewInt(400), nil)}
	for _, st := range sts {
		op := tlaval.AsStr(st["op"])
		i := tlaval.AsInt(tlaval.AsRec(st["a"])["n"])
		j := tlaval.AsInt(tlaval.AsRec(st["b"])["n"])
		poly := tlaval.IntSeq(st["res"])
		for _, B := range bs {
			for _, neg := range []bool{false, true} {
				total++
				nontrivial++
				BB := new(big.Int).Set(B)
				if neg {
					BB.Neg(BB)
				}
				x := new(big.Int).Add(BB, big.NewInt(int64(i)))
				y := new(big.Int).Add(BB, big.NewInt(int64(j)))
				want := new(big.Int).Mul(big.NewInt(int64(poly[0])), new(big.Int).Mul(BB, BB))
				want.Add(want, new(big.Int).Mul(big.NewInt(int64(poly[1])), BB))
				want.Add(want, big.NewInt(int64(poly[2])))
				var expr string
				switch op {
				case "div0":
					expr = fmt.Sprintf("div(%s, %s) + mod(%s, %s)", paren(x.String()), paren(x.String()), paren(x.String()), paren(x.String()))
				default:
					expr = fmt.Sprintf("%s %s %s", paren(x.String()), op, paren(y.String()))
				}
				v := ctx.CompileString("x: " + expr).LookupPath(cue.ParsePath("x"))
				key := "arith big " + op + fmt.Sprintf(" B=%s%d bits i=%d j=%d", map[bool]string{true: "-", false: ""}[neg], B.BitLen(), i, j)
				if op == "<" || op == "==" {
					got, err := v.Bool()
					if err != nil || got != (poly[2] == 1) {
						r.Violation(key, fmt.Sprintf("%s = %v, want %v", expr, v, poly[2] == 1), map[string]any{"expr": expr})
					}
					continue
				}
				var z big.Int
				var ierr error
				panicked := ""
				func() {
					defer func() {
						if p := recover(); p != nil {
							panicked = fmt.Sprint(p)
						}
					}()
					_, ierr = v.Int(&z)
				}()
				if sig := len(strings.TrimLeft(want.String(), "-")); sig > 34 && (panicked != "" || ierr != nil || z.Cmp(want) != 0) {
					// known finding: integer results that need more than 34 significant digits
					r.Violation("class int-result-beyond-34-digits", fmt.Sprintf("%s = %v, exact integer arithmetic gives %s (Value.Int: %v %s)", expr, v, want, ierr, panicked), map[string]any{"expr": expr})
					continue
				}
				if panicked != "" {
					r.Violation(key+" panic", fmt.Sprintf("Value.Int panics on %s (= %v): %s", expr, v, panicked), map[string]any{"expr": expr})
					continue
				}
				if err := ierr; err != nil || z.Cmp(want) != 0 || v.Kind() != cue.IntKind {
					r.Violation(key, fmt.Sprintf("%s = %v, exact integer arithmetic gives %s", expr, v, want), map[string]any{"expr": expr})
				}
			}
		}
	}
	// ---- comparison of strings and bytes ----
	_, sts = run("strcmp")
	renderStr := func(v tlaval.Value) string {
		rec := tlaval.AsRec(v)
		bs := tlaval.IntSeq(rec["bytes"])
		if tlaval.AsStr(rec["k"]) == "bytes" {
			var b strings.Builder
			b.WriteString("'")
			for _, x := range bs {
				fmt.Fprintf(&b, "\\x%02x", x)
			}
			b.WriteString("'")
			return b.String()
		}
		raw := make([]byte, len(bs))
		for i, x := range bs {
			raw[i] = byte(x)
		}
		return strconv.Quote(string(raw))
	}
	for i, st := range sts {
		op := tlaval.AsStr(st["op"])
		expr := fmt.Sprintf("%s %s %s", renderStr(st["a"]), op, renderStr(st["b"]))
		total++
		wantErr := tlaval.AsBool(st["err"])
		resv := tlaval.IntSeq(st["res"])
		v := ctx.CompileString("x: " + expr).LookupPath(cue.ParsePath("x"))
		if i%200 == 0 {
			ctx = cuecontext.New()
		}
		if wantErr {
			if v.Err() == nil {
				r.Violation("strcmp "+expr, fmt.Sprintf("%s evaluates to %v, a string and a bytes value do not compare", expr, v), map[string]any{"expr": expr})
			}
			continue
		}
		nontrivial++
		got, err := v.Bool()
		if err != nil || got != (resv[0] == 1) {
			r.Violation("strcmp "+expr, fmt.Sprintf("%s = %v (%v), comparison of the byte sequences gives %v", expr, v, err, resv[0] == 1), map[string]any{"expr": expr})
		}
		// the same as a bound: a & <b  must succeed exactly when a < b
		if op != "==" && tlaval.AsStr(tlaval.AsRec(st["a"])["k"]) == tlaval.AsStr(tlaval.AsRec(st["b"])["k"]) {
			bexpr := fmt.Sprintf("%s & %s%s", renderStr(st["a"]), op, renderStr(st["b"]))
			bv := ctx.CompileString("x: " + bexpr).LookupPath(cue.ParsePath("x"))
			if (bv.Err() == nil) != (resv[0] == 1) {
				r.Violation("strbound "+bexpr, fmt.Sprintf("%s: error=%v, comparison of the byte sequences gives %v", bexpr, bv.Err(), resv[0] == 1), map[string]any{"expr": bexpr})
			}
		}
	}
	// ---- integer division on a shared operand ----
	_, sts = run("shared")
	bs2 := append(bs, new(big.Int).Lsh(big.NewInt(1), 127), new(big.Int).Exp(big.NewInt(10), big.NewInt(40), nil), big.NewInt(1000))
	for _, st := range sts {
		var ops []string
		for _, o := range tlaval.AsSeq(st["op"]) {
			ops = append(ops, tlaval.AsStr(o))
		}
		i := tlaval.AsInt(tlaval.AsRec(st["a"])["n"])
		j := tlaval.AsInt(tlaval.AsRec(st["b"])["n"])
		for _, B := range bs2 {
			for _, neg := range []bool{false, true} {
				total++
				nontrivial++
				x := new(big.Int).Add(B, big.NewInt(int64(i)))
				if neg {
					x.Neg(x)
				}
				y := big.NewInt(int64(j))
				var src strings.Builder
				fmt.Fprintf(&src, "x: %s\ny: %d\n", x, j)
				for k, o := range ops {
					fmt.Fprintf(&src, "r%d: %s(x, y)\n", k, o)
				}
				v := ctx.CompileString(src.String())
				for k, o := range ops {
					var want big.Int
					switch o {
					case "div":
						want.Div(x, y)
					case "mod":
						want.Mod(x, y)
					case "quo":
						want.Quo(x, y)
					case "rem":
						want.Rem(x, y)
					}
					rv := v.LookupPath(cue.ParsePath(fmt.Sprintf("r%d", k)))
					var z big.Int
					var ierr error
					panicked := ""
					func() {
						defer func() {
							if p := recover(); p != nil {
								panicked = fmt.Sprint(p)
							}
						}()
						_, ierr = rv.Int(&z)
					}()
					if sig := len(strings.TrimLeft(want.String(), "-")); sig > 34 && (panicked != "" || ierr != nil || z.Cmp(&want) != 0) {
						r.Violation("class int-result-beyond-34-digits", fmt.Sprintf("%s(%s, %d) = %v, exact integer arithmetic gives %s", o, x, j, rv, &want), map[string]any{"source": src.String()})
						continue
					}
					if panicked != "" || ierr != nil || z.Cmp(&want) != 0 {
						r.Violation(fmt.Sprintf("shared intdiv %v B=%s%d bits i=%d j=%d use %d", ops, map[bool]string{true: "-", false: ""}[neg], B.BitLen(), i, j, k),
							fmt.Sprintf("use %d of the shared operand: %s(x, y) = %v with x = %s, y = %d; the defining identity gives %s (%v %s)", k, o, rv, x, j, &want, ierr, panicked), map[string]any{"source": src.String()})
					}
				}
			}
		}
	}
	// ---- literal spellings ----
	_, sts = run("literal")
	for si, st := range sts {
		l := tlaval.AsRec(st["a"])
		base, ip, us := tlaval.AsStr(l["base"]), tlaval.AsInt(l["ip"]), tlaval.AsBool(l["us"])
		frac, exp, mult := tlaval.AsStr(l["frac"]), tlaval.AsStr(l["exp"]), tlaval.AsStr(l["mult"])
		var txt string
		switch base {
		case "dec":
			txt = fmt.Sprint(ip)
			if us {
				txt = txt[:len(txt)-3] + "_" + txt[len(txt)-3:]
			}
			if frac != "none" {
				txt += "." + frac
			}
			if exp != "none" {
				txt += exp
			}
			txt += mult
		case "hex":
			txt = fmt.Sprintf("0x%X", ip)
			if si%2 == 0 {
				txt = fmt.Sprintf("0x%x", ip)
			}
			if us {
				txt = txt[:len(txt)-2] + "_" + txt[len(txt)-2:]
			}
		case "oct":
			txt = fmt.Sprintf("0o%o", ip)
			if us {
				txt = txt[:len(txt)-2] + "_" + txt[len(txt)-2:]
			}
		case "bin":
			txt = fmt.Sprintf("0b%b", ip)
			if us {
				txt = txt[:len(txt)-4] + "_" + txt[len(txt)-4:]
			}
		}
		total++
		val := tlaval.AsRec(st["res"])
		want := big.NewRat(int64(tlaval.AsInt(val["mant"])), 1)
		e10, e2 := tlaval.AsInt(val["e10"]), tlaval.AsInt(val["e2"])
		p10 := new(big.Rat).SetInt(new(big.Int).Exp(big.NewInt(10), big.NewInt(int64(abs64(e10))), nil))
		if e10 >= 0 {
			want.Mul(want, p10)
		} else {
			want.Quo(want, p10)
		}
		want.Mul(want, new(big.Rat).SetInt(new(big.Int).Lsh(big.NewInt(1), uint(e2))))
		kind := tlaval.AsStr(st["kind"])
		if mult != "" {
			if !want.IsInt() {
				continue // a multiplier on a fraction that does not give an integer: outside the claim
			}
			kind = "int"
		}
		nontrivial++
		v := ctx.CompileString("x: " + txt).LookupPath(cue.ParsePath("x"))
		if v.Err() != nil {
			r.Violation("literal "+txt, fmt.Sprintf("the literal %s is rejected: %v", txt, v.Err()), map[string]any{"literal": txt})
			continue
		}
		got, ok := ratOfValue(v)
		gotKind := "float"
		if v.Kind() == cue.IntKind {
			gotKind = "int"
		}
		if !ok || got.Cmp(want) != 0 {
			r.Violation("literal "+txt, fmt.Sprintf("the literal %s denotes %v, the spec defines %s", txt, v, want.FloatString(6)), map[string]any{"literal": txt})
		} else if gotKind != kind {
			r.Violation("literal kind "+txt, fmt.Sprintf("the literal %s has kind %s, want %s", txt, gotKind, kind), map[string]any{"literal": txt})
		}
		if si%100 == 0 {
			r.Sample(map[string]any{"literal": txt, "spec_value": want.FloatString(4), "evaluator": fmt.Sprint(v)})
		}
	}
	r.Set("traces_validated_against_impl", total)
	r.Set("evaluations", total)
	r.Set("distinct_nontrivial", nontrivial)
	r.Set("canaries_rejected", int(caught))
	r.Set("exhaustive", true)
	r.Set("rule", "every state of CueArith.tla: (operator, operand pair) over 24 small numbers with the model's kind / error / exact fraction; (B+i) op (B+j) for i, j in -2..2 instantiated at +-2^63, +-2^64, +-10^34, +-10^400; every comparison (also as a bound) between 18 string / bytes values incl. invalid UTF-8 bytes; every sequence of three integer divisions on one shared operand +-(B+i) (also B = 2^127, 10^40, 1000) by -7, -2, 3, 7; every structural literal spelling; non-trivial = cases that are not required errors")
}

package main

import (
	"fmt"
	"math/rand"
	"strings"
	"sync/atomic"
	"time"

	"cuelang.org/go/cue/ast"
	"cuelang.org/go/cue/cuecontext"
	"cuelang.org/go/cue/errors"
	"cuelang.org/go/cue/literal"
	"cuelang.org/go/cue/parser"
	"cuelang.org/go/cue/scanner"
	"cuelang.org/go/cue/token"
	"cuelang.org/go/verifharness/kit"
	"cuelang.org/go/verifharness/tlaval"
)

func init() { register("C09", "model_checking", checkC09) }

var c09Sym = map[string]string{"dq": `"`, "sq": `'`, "bs": `\`, "hash": "#", "lf": "\n", "cr": "\r", "tab": "\t", "lparen": "(",
	"n": "n", "u": "u", "x": "x", "a": "a", "eacute": "é", "emoji": "😀", "nul": "\x00", "del": "\x7f", "xff": "\xff", "repl": "\ufffd"}
var c09SymOrder = []string{"dq", "sq", "bs", "hash", "lf", "cr", "tab", "lparen", "n", "u", "x", "a", "eacute", "emoji", "nul", "del", "xff", "repl"}
var c09Toks = []string{"a", "#D", "_h", "1", `"s"`, "{", "}", "[", "]", "(", ")", ":", ",", "&", "|", "*", "?", "!", "=",
	"...", "\n", "// c\n", "for", "if", "let", "in", "import", "package", ".", "<", "=~", "-", `\(`, "'b'", "1.5e3", "_|_"}
var c09TChars = []string{`"`, `\`, "n", "a", "#", "\n"}

func c09Form(rec tlaval.Rec) (literal.Form, string) {
	kind := tlaval.AsStr(rec["kind"])
	f := literal.String
	if kind == "bytes" {
		f = literal.Bytes
	}
	ml := tlaval.AsStr(rec["ml"])
	switch ml {
	case "tabs1":
		f = f.WithTabIndent(1)
	case "tabs0":
		f = f.WithTabIndent(0)
	case "opt-tabs1":
		f = f.WithOptionalTabIndent(1)
	}
	if tlaval.AsBool(rec["hashes"]) {
		f = f.WithOptionalHashes()
	}
	cs := tlaval.AsStr(rec["cs"])
	switch cs {
	case "ascii":
		f = f.WithASCIIOnly()
	case "graphic":
		f = f.WithGraphicOnly()
	}
	return f, fmt.Sprintf("%s/%s/hashes=%v/%s", kind, ml, tlaval.AsBool(rec["hashes"]), cs)
}

// scanSingleString reports whether src scans as exactly one STRING token.
func scanSingleString(src string) bool {
	var s scanner.Scanner
	errs := 0
	f := token.NewFile("lit", -1, len(src))
	s.Init(f, []byte(src), func(token.Pos, string, []interface{}) { errs++ }, 0)
	_, tok, lit := s.Scan()
	if tok != token.STRING || lit != src {
		return false // not a string, or surrounded by something else (white space)
	}
	for {
		_, tok, _ = s.Scan()
		if tok == token.EOF {
			break
		}
		if tok == token.COMMA { // automatically inserted at the end
			continue
		}
		return false
	}
	return errs == 0
}

func parseSingleString(src string) (ok bool, panicked string) {
	defer func() {
		if p := recover(); p != nil {
			panicked = fmt.Sprint(p)
		}
	}()
	e, err := parser.ParseExpr("lit", src)
	if err != nil {
		return false, ""
	}
	bl, isLit := e.(*ast.BasicLit)
	return isLit && bl.Kind == token.STRING && bl.Value == src, ""
}

// checkTree verifies the position invariants of a parse result.
func checkTree(src string, f *ast.File, err error) string {
	n := len(src)
	for _, e := range errors.Errors(err) {
		p := e.Position()
		if p.IsValid() && (p.Offset() < 0 || p.Offset() > n) {
			return fmt.Sprintf("error position %d outside the input (len %d)", p.Offset(), n)
		}
	}
	if f == nil {
		return ""
	}
	type span struct{ lo, hi int }
	var stack []span
	var lastSibling []int
	problem := ""
	ast.Walk(f, func(nd ast.Node) bool {
		if problem != "" {
			return false
		}
		if _, isFile := nd.(*ast.File); isFile {
			stack = append(stack, span{0, n})
			lastSibling = append(lastSibling, -1)
			return true
		}
		lo, hi := nd.Pos(), nd.End()
		switch nd.(type) {
		case *ast.CommentGroup, *ast.Comment:
			// comments are attached to a node but stand next to it, not inside it
			if lo.IsValid() && hi.IsValid() && (lo.Offset() < 0 || hi.Offset() > n || lo.Offset() > hi.Offset()) {
				problem = fmt.Sprintf("%T spans [%d,%d) outside the input (len %d)", nd, lo.Offset(), hi.Offset(), n)
			}
			stack = append(stack, stack[len(stack)-1])
			lastSibling = append(lastSibling, -1)
			return true
		}
		if !lo.IsValid() || !hi.IsValid() {
			stack = append(stack, stack[len(stack)-1])
			lastSibling = append(lastSibling, -1)
			return true
		}
		l, h := lo.Offset(), hi.Offset()
		switch {
		case l < 0 || h > n || l > h:
			problem = fmt.Sprintf("%T spans [%d,%d) outside the input (len %d)", nd, l, h, n)
		case l < stack[len(stack)-1].lo || h > stack[len(stack)-1].hi:
			problem = fmt.Sprintf("%T [%d,%d) not within its parent [%d,%d)", nd, l, h, stack[len(stack)-1].lo, stack[len(stack)-1].hi)
		case l < lastSibling[len(lastSibling)-1]:
			problem = fmt.Sprintf("%T starts at %d before its preceding sibling at %d", nd, l, lastSibling[len(lastSibling)-1])
		}
		lastSibling[len(lastSibling)-1] = l
		stack = append(stack, span{l, h})
		lastSibling = append(lastSibling, -1)
		return true
	}, func(ast.Node) {
		stack = stack[:len(stack)-1]
		lastSibling = lastSibling[:len(lastSibling)-1]
	})
	return problem
}

func parseTotal(src string) (problem string) {
	defer func() {
		if p := recover(); p != nil {
			problem = fmt.Sprintf("parser panicked: %v", p)
		}
	}()
	f, err := parser.ParseFile("soup.cue", src, parser.ParseComments)
	return checkTree(src, f, err)
}

func checkC09(r *kit.Run) {
	r.Assumptions = []string{
		"strings / byte sequences: every sequence of <= L symbols of the 18-symbol alphabet of CueLiteral.tla (quotes, backslash, #, LF, CR, TAB, '(', the letters n u x a, é, 😀, NUL, DEL, a validly encoded U+FFFD, 0xFF for bytes) x the 48 quoting forms; candidate literal texts over { \" \\ n a # LF } up to length 6 (thorough 7); token soups of up to 3 (thorough 4) tokens from the 36-token alphabet of CueTokens.tla",
		"arbitrary byte strings are not enumerated (see DESIGN.md): totality is claimed for the grammar-shaped soups only",
	}
	// ---- 1. quoting round trip ----
	lq := kit.Pick(r, 3, 4)
	res, err := kit.RunTLC(kit.TLCOpts{Module: "CueLiteral", CfgText: fmt.Sprintf("INIT Init\nNEXT Next\nCONSTANTS Mode = \"quote\" L = %d\n", lq), Dump: true, Timeout: 40 * time.Minute, Heap: "24g"})
	if err != nil || res.TimedOut || !res.OK() {
		out := res.Tail(30)
		res.Cleanup()
		r.Fatal("CueLiteral(quote) model: %v\n%s", err, out)
	}
	r.AddTLC("CueLiteral quote", res)
	ctxs := make([]int, 16)
	var quoted, nontrivial int64
	n1, err := kit.ForEachState(res.DumpPath, nil, 16, func(w int, st tlaval.State) {
		var sb strings.Builder
		syms := tlaval.IntSeq(st["s"])
		for _, i := range syms {
			sb.WriteString(c09Sym[c09SymOrder[i-1]])
		}
		s := sb.String()
		frec := tlaval.AsRec(st["form"])
		f, fname := c09Form(frec)
		q := f.Quote(s)
		atomic.AddInt64(&quoted, 1)
		if len(syms) >= 2 {
			atomic.AddInt64(&nontrivial, 1)
		}
		u, uerr := literal.Unquote(q)
		if uerr != nil || u != s {
			r.Violation(fmt.Sprintf("quote %q as %s", s, fname), fmt.Sprintf("Quote gives %q, Unquote gives %q (%v), not the original %q", q, u, uerr, s), map[string]any{"string": s, "form": fname, "quoted": q})
			return
		}
		if !scanSingleString(q) {
			r.Violation(fmt.Sprintf("scan %q as %s", s, fname), fmt.Sprintf("the scanner does not accept %q (quoted form of %q) as one string literal", q, s), map[string]any{"string": s, "form": fname, "quoted": q})
		}
		if ok, p := parseSingleString(q); !ok {
			r.Violation(fmt.Sprintf("parse %q as %s", s, fname), fmt.Sprintf("the parser does not accept %q as a string literal %s", q, p), map[string]any{"string": s, "form": fname, "quoted": q})
		}
		ctxs[w]++
		if ctxs[w]%97 == 0 {
			// end to end through the evaluator
			v := cuecontext.New().CompileString("x: " + q)
			x := v.LookupPath(cuePath("x"))
			var got string
			var gerr error
			if tlaval.AsStr(frec["kind"]) == "bytes" {
				var b []byte
				b, gerr = x.Bytes()
				got = string(b)
			} else {
				got, gerr = x.String()
			}
			if gerr != nil || got != s {
				r.Violation(fmt.Sprintf("eval %q as %s", s, fname), fmt.Sprintf("evaluating %q yields %q (%v)", q, got, gerr), map[string]any{"string": s, "form": fname, "quoted": q})
			}
			if ctxs[w]%9700 == 0 {
				r.Sample(map[string]any{"string": s, "form": fname, "quoted": q})
			}
		}
	})
	res.Cleanup()
	if err != nil {
		r.Fatal("CueLiteral dump: %v", err)
	}
	// canary for the round trip oracle
	if u, _ := literal.Unquote(literal.String.Quote("a\nb")); u != "a\nb" || u == "a b" {
		r.Fatal("canary: round trip oracle broken")
	}

	// ---- 2. literal validity: spec recogniser vs scanner, parser, Unquote ----
	lv := kit.Pick(r, 6, 7)
	res2, err := kit.RunTLC(kit.TLCOpts{Module: "CueLiteral", CfgText: fmt.Sprintf("INIT Init\nNEXT Next\nCONSTANTS Mode = \"valid\" L = %d\nINVARIANT LitShape\n", lv), Dump: true, Timeout: 40 * time.Minute, Heap: "24g"})
	if err != nil || res2.TimedOut || !res2.OK() {
		out := res2.Tail(30)
		res2.Cleanup()
		r.Fatal("CueLiteral(valid) model: %v %s\n%s", err, res2.Violation, out)
	}
	r.AddTLC("CueLiteral valid", res2)
	var cands, validLits, canary, caught int64
	n2, err := kit.ForEachState(res2.DumpPath, nil, 16, func(w int, st tlaval.State) {
		var sb strings.Builder
		for _, i := range tlaval.IntSeq(st["s"]) {
			sb.WriteString(c09TChars[i-1])
		}
		t := sb.String()
		want := tlaval.AsBool(st["valid"])
		atomic.AddInt64(&cands, 1)
		if want {
			atomic.AddInt64(&validLits, 1)
		}
		sc := scanSingleString(t)
		pa, panicked := parseSingleString(t)
		_, uerr := literal.Unquote(t)
		un := uerr == nil
		if panicked != "" {
			r.Violation(fmt.Sprintf("literal panic %q", t), "the parser panicked: "+panicked, map[string]any{"text": t})
			return
		}
		if sc != want || pa != want || un != want {
			r.Violation(fmt.Sprintf("literal validity %q", t), fmt.Sprintf("is %q a string literal? grammar: %v, scanner: %v, parser: %v, literal.Unquote: %v", t, want, sc, pa, un), map[string]any{"text": t, "grammar": want, "scanner": sc, "parser": pa, "unquote": un})
		}
		if cands%5000 == 1 {
			atomic.AddInt64(&canary, 1)
			if sc != !want || pa != !want || un != !want {
				atomic.AddInt64(&caught, 1)
			}
		}
	})
	res2.Cleanup()
	if err != nil {
		r.Fatal("CueLiteral dump: %v", err)
	}
	if (canary == 0 && r.Violations() == 0) || caught != canary {
		r.Fatal("canary: %d of %d flipped validity verdicts noticed", caught, canary)
	}

	// ---- 2b. identifiers: spec grammar vs ast.IsValidIdent, scanner, parser ----
	{
		li := kit.Pick(r, 4, 5)
		resI, err := kit.RunTLC(kit.TLCOpts{Module: "CueLiteral", CfgText: fmt.Sprintf("INIT Init\nNEXT Next\nCONSTANTS Mode = \"ident\" L = %d\n", li), Dump: true, Timeout: 20 * time.Minute})
		if err != nil || resI.TimedOut || !resI.OK() {
			out := resI.Tail(30)
			resI.Cleanup()
			r.Fatal("CueLiteral(ident) model: %v %s\n%s", err, resI.Violation, out)
		}
		r.AddTLC("CueLiteral ident", resI)
		// instances of the character classes (chosen per position, so that every class member occurs)
		classes := map[string][]string{"L": {"a", "é", "日", "Z"}, "D": {"1", "٣", "１", "0"}, "us": {"_"}, "dollar": {"$"}, "hash": {"#"}, "dash": {"-"}, "dot": {"."}}
		order := []string{"L", "D", "us", "dollar", "hash", "dash", "dot"}
		var idents, validIdents int64
		_, err = kit.ForEachState(resI.DumpPath, nil, 16, func(w int, st tlaval.State) {
			seq := tlaval.IntSeq(st["s"])
			want := tlaval.AsBool(st["valid"])
			for variant := 0; variant < 4; variant++ {
				var sb strings.Builder
				for pos, i := range seq {
					m := classes[order[i-1]]
					sb.WriteString(m[(variant+pos)%len(m)])
				}
				t := sb.String()
				if isKeywordOrSpecial(t) {
					continue
				}
				atomic.AddInt64(&idents, 1)
				if want {
					atomic.AddInt64(&validIdents, 1)
				}
				iv := ast.IsValidIdent(t)
				sc := scanSingleIdent(t)
				pa := parseSingleIdent(t)
				if iv != want || sc != want || pa != want {
					r.Violation("ident "+t, fmt.Sprintf("identifier %q: the grammar says valid=%v, ast.IsValidIdent=%v, the scanner=%v, the parser=%v", t, want, iv, sc, pa), map[string]any{"text": t})
				}
			}
		})
		resI.Cleanup()
		if err != nil {
			r.Fatal("CueLiteral ident dump: %v", err)
		}
		r.Set("identifier_candidates", int(idents))
		r.Set("identifier_candidates_valid", int(validIdents))
	}

	// ---- 3. token soups ----
	lt := kit.Pick(r, 3, 4)
	res3, err := kit.RunTLC(kit.TLCOpts{Module: "CueTokens", CfgText: fmt.Sprintf("INIT Init\nNEXT Next\nCONSTANT L = %d\n", lt), Dump: true, Timeout: 40 * time.Minute, Heap: "24g", MaxSetSize: 4000000})
	if err != nil || res3.TimedOut || !res3.OK() {
		out := res3.Tail(30)
		res3.Cleanup()
		r.Fatal("CueTokens model: %v\n%s", err, out)
	}
	r.AddTLC("CueTokens", res3)
	toks := c09Toks
	seps := []string{" ", "", "\n", "\t ", " // x\n"}
	var soups int64
	rngs := make([]*rand.Rand, 16)
	for i := range rngs {
		rngs[i] = rand.New(rand.NewSource(r.Seed*31 + int64(i)))
	}
	n3, err := kit.ForEachState(res3.DumpPath, nil, 16, func(w int, st tlaval.State) {
		ts := tlaval.IntSeq(st["ts"])
		// one rendering with single spaces, one with seeded separators
		for variant := 0; variant < 2; variant++ {
			var sb strings.Builder
			for i, t := range ts {
				if i > 0 {
					if variant == 0 {
						sb.WriteString(" ")
					} else {
						sb.WriteString(seps[rngs[w].Intn(len(seps))])
					}
				}
				sb.WriteString(toks[t-1])
			}
			src := sb.String()
			atomic.AddInt64(&soups, 1)
			if p := parseTotal(src); p != "" {
				r.Violation(fmt.Sprintf("soup %q", src), p, map[string]any{"source": src})
			}
		}
	})
	res3.Cleanup()
	if err != nil {
		r.Fatal("CueTokens dump: %v", err)
	}
	// canary for the tree checker: a forged tree must be flagged
	{
		src := "a: 1\nb: 2\n"
		f, _ := parser.ParseFile("c.cue", src)
		f2, _ := parser.ParseFile("c.cue", src+"\n\n\n\nzz: 3\n")
		if checkTree(src, f, nil) != "" || checkTree(src, f2, nil) == "" {
			r.Fatal("canary: the position checker does not notice nodes outside the input")
		}
	}
	r.Set("traces_validated_against_impl", n1+n2+n3)
	r.Set("quoted_strings", int(quoted))
	r.Set("literal_candidates", int(cands))
	r.Set("valid_literals_among_them", int(validLits))
	r.Set("token_soups_parsed", int(soups))
	r.Set("evaluations", int(quoted+cands+soups))
	r.Set("distinct_nontrivial", int(nontrivial+validLits))
	r.Set("canaries_rejected", int(caught)+2)
	r.Set("exhaustive", true)
	r.Set("rule", "every (string, quoting form) state of CueLiteral.tla: Unquote(Quote(s)) == s, the quoted text scans and parses as one literal, a sample evaluates to s; every candidate literal text: the grammar recogniser of the spec, the scanner, the parser and literal.Unquote must agree; every token soup of CueTokens.tla in two spacings: no panic, positions inside the input, children within parents, siblings ordered; non-trivial = strings of >= 2 symbols plus valid literal candidates")
}

// isKeywordOrSpecial: texts the identifier grammar does not decide (keywords, the bottom literal, top).
func isKeywordOrSpecial(t string) bool {
	switch t {
	case "_", "_|_", "for", "in", "if", "let", "null", "true", "false", "import", "package":
		return true
	}
	return false
}

// scanSingleIdent reports whether src scans as exactly one IDENT token without errors.
func scanSingleIdent(src string) bool {
	var s scanner.Scanner
	errs := 0
	f := token.NewFile("id", -1, len(src))
	s.Init(f, []byte(src), func(token.Pos, string, []interface{}) { errs++ }, 0)
	_, tok, lit := s.Scan()
	if tok != token.IDENT || lit != src {
		return false
	}
	for {
		_, tok, _ = s.Scan()
		if tok == token.EOF {
			break
		}
		if tok == token.COMMA {
			continue
		}
		return false
	}
	return errs == 0
}

// parseSingleIdent reports whether `x: <src>` parses with <src> as one identifier.
func parseSingleIdent(src string) (ok bool) {
	defer func() {
		if recover() != nil {
			ok = false
		}
	}()
	f, err := parser.ParseFile("id.cue", "x: "+src+"\n")
	if err != nil || len(f.Decls) != 1 {
		return false
	}
	fld, isField := f.Decls[0].(*ast.Field)
	if !isField {
		return false
	}
	id, isIdent := fld.Value.(*ast.Ident)
	return isIdent && id.Name == src
}

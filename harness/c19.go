package main

import (
	"bufio"
	"bytes"
	"crypto/sha1"
	"encoding/hex"
	"encoding/json"
	"flag"
	"fmt"
	"os"
	"os/exec"
	"path/filepath"
	"runtime"
	"sort"
	"strconv"
	"strings"
	"sync"
	"sync/atomic"
	"time"

	"cuelang.org/go/cue"
	"cuelang.org/go/cue/cuecontext"
	"cuelang.org/go/cue/format"
	"cuelang.org/go/encoding/yaml"
	cueruntime "cuelang.org/go/internal/core/runtime"
	"cuelang.org/go/internal/value"
	"cuelang.org/go/verifharness/kit"
	"cuelang.org/go/verifharness/tlaval"
)

func init() {
	register("C19", "model_checking", checkC19)
	workers["c19"] = workerC19
}

// c19Programs is the pool the schedules draw from (index = prog-1).
var c19Programs = []string{
	`a: {b: 1, c: "x"}, d: [1, 2, 3]`,
	`a: {b: int | *7, c: string}, d: a.b + 1`,
	`#D: {x: int, y?: string}, a: #D & {x: 1}, b: a.x`,
	`a: {b: *1 | 2 | 3, c: >0 & <10}, e: a.b & a.c`,
	`a: {for i, v in [1, 2, 3] {"k\(i)": v * 2}}, s: a.k1`,
	`a: {b: c, c: d, d: 5}, l: [a.b, a.c]`,
	`a: {[string]: int, x: 1, y: 2}, b: a & {z: 3}`,
	`a: {b: {c: {d: {e: "deep"}}}}, r: a.b.c.d.e`,
	`import "strings"
a: {b: strings.ToUpper("abc"), c: strings.Join(["x", "y"], "-")}`,
	`import "list"
a: {b: list.Sum([1, 2, 3]), c: list.Sort([3, 1, 2], list.Ascending)}`,
	`a: {b: 1 & 2}, c: 3`,
	`a: {b: string, c: b + "x"}, d: a & {b: "s"}`,
	`a: {if x > 1 {b: "big"}, x: 2, b: string}`,
	`#A: {k: string, v: {[k]: int}}, a: #A & {k: "q", v: q: 1}`,
	`a: {b: [...int], c: b & [1, 2]}, n: len(a.c)`,
	`a: {b: {x: 1} | {y: 2}, c: b & {x: 1}}`,
	`let L = {p: 1, q: 2}
a: {b: L.p, c: L}`,
	`a: {b: close({x: 1}), c: b.x}, d: a.b & {x: 1}`,
	`a: {b: 1.5, c: 2.5e10, d: 0x10, e: 'bytes', f: null, g: true}`,
	`a: {b: {x: 1}, c: {b, y: 2}}, d: a.c.x`,
	`a: {b: [for x in [1, 2, 3] if x > 1 {x}], c: {for k, v in {p: 1, q: 2} {"\(k)2": v}}}`,
	`a: {b!: int, c?: string, _h: 3, #d: 4}, e: a._h`,
	`a: {b: =~"^a", c: b & "abc", d: !="x"}`,
	`a: {b: {c: b2.d}, b2: {d: b3}, b3: 9}, z: a.b.c`,
	// validators and builtins that take struct arguments (they copy the argument as data)
	`a: {b: {x: 1, y: {z: 2}} & matchN(1, [{x: int, ...}, string]), c: matchN(>=1, [{x: 1, ...}, {y: {z: 2}, ...}]) & b}`,
	`import "struct"
a: {b: {x: 1, y: {z: 2}} & struct.MaxFields(3), c: b & struct.MinFields(1)}`,
	`import "list"
a: {b: [{x: 1}, {x: 2}], c: list.Contains(b, {x: 2}), d: list.Concat([b, [{x: 3}]])}`,
}

const c19NOps = 19

func digest(s string) string {
	h := sha1.Sum([]byte(s))
	return hex.EncodeToString(h[:6])
}

// c19Apply runs method number op on the shared value and returns a digest
// of everything it returned.
func c19Apply(ctx *cue.Context, v cue.Value, op int) string {
	a := v.LookupPath(cue.ParsePath("a"))
	var out string
	switch op {
	case 1:
		x := v.LookupPath(cue.ParsePath("a.b"))
		out = fmt.Sprintf("%v|%v|%v", x, x.Exists(), x.Err())
	case 2:
		it, err := a.Fields(cue.All())
		var sb strings.Builder
		if err == nil {
			for it.Next() {
				fmt.Fprintf(&sb, "%s=%v;", it.Selector(), it.Value())
			}
		}
		out = fmt.Sprintf("%s|%v", sb.String(), err)
	case 3:
		u := v.Unify(ctx.CompileString(`a: {zz: 1}`))
		out = fmt.Sprintf("%v|%v", u, u.Err())
	case 4:
		f := v.FillPath(cue.ParsePath("a.extra"), 5)
		out = fmt.Sprintf("%v|%v", f, f.Err())
	case 5:
		out = fmt.Sprint(v.Validate())
	case 6:
		out = fmt.Sprint(v.Validate(cue.Concrete(true)))
	case 7:
		d, ok := a.Default()
		out = fmt.Sprintf("%v|%v", d, ok)
	case 8:
		n := v.Syntax(cue.Final())
		b, err := format.Node(n)
		out = fmt.Sprintf("%s|%v", b, err)
	case 9:
		n := v.Syntax(cue.All(), cue.Docs(true))
		b, err := format.Node(n)
		out = fmt.Sprintf("%s|%v", b, err)
	case 10:
		var x any
		err := v.Decode(&x)
		j, _ := json.Marshal(x)
		out = fmt.Sprintf("%s|%v", j, err)
	case 11:
		b, err := v.MarshalJSON()
		out = fmt.Sprintf("%s|%v", b, err)
	case 12:
		b, err := yaml.Encode(v)
		out = fmt.Sprintf("%s|%v", b, err)
	case 13:
		out = fmt.Sprintf("%v|%v|%v", a.Kind(), a.IncompleteKind(), a.IsConcrete())
	case 14:
		out = fmt.Sprintf("%v|%v", v.Equals(v), v.Subsume(v))
	case 15:
		e := v.Eval()
		out = fmt.Sprintf("%v|%v", e, e.Err())
	case 16:
		var sb strings.Builder
		v.Walk(func(x cue.Value) bool {
			fmt.Fprintf(&sb, "%v:%v;", x.Path(), x.IncompleteKind())
			return true
		}, nil)
		out = sb.String()
	case 17:
		// the shared value inside a Go container handed to FillPath
		root := ctx.CompileString(`r: {}`)
		f := root.FillPath(cue.ParsePath("r"), map[string]any{"k": v, "l": []any{a}})
		out = fmt.Sprintf("%v|%v|%v|%v", f, f.Err(), v.Path(), a.Path())
	case 18:
		e := ctx.Encode(struct {
			A cue.Value
			B []cue.Value
		}{v, []cue.Value{a, v}})
		out = fmt.Sprintf("%v|%v|%v|%v", e, e.Err(), v.Path(), a.Path())
	case 19:
		e := ctx.Encode(map[string]any{"m": v, "n": map[string]cue.Value{"o": a}})
		b, err := e.MarshalJSON()
		out = fmt.Sprintf("%s|%v|%v|%v", b, err, v.Path(), a.Path())
	}
	return digest(out)
}

type c19Event struct {
	Ev  string `json:"ev"`
	G   int    `json:"g"`
	Op  int    `json:"op"`
	Res string `json:"res"`
}
type c19Key struct {
	S   string `json:"s"`
	Idx int64  `json:"idx"`
}
type c19History struct {
	Prog      int        `json:"prog"`
	Evaluated bool       `json:"evaluated"`
	Ngor      int        `json:"ngor"`
	Base      []string   `json:"base"`
	Post      []string   `json:"post"`
	Ev        []c19Event `json:"ev"`
	Keys      []c19Key   `json:"keys"`
	Mode      string     `json:"mode"`
	Unstable  []int      `json:"unstable,omitempty"`
}

type c19Schedule struct {
	Prog      int
	Evaluated bool
	Ngor      int
	Steps     [][2]int // {g, op} for Call, {g, 0} for Return
}

func c19ReadSchedule(path string) (*c19Schedule, error) {
	fh, err := os.Open(path)
	if err != nil {
		return nil, err
	}
	defer fh.Close()
	steps, err := tlaval.ReadSim(fh, true)
	if err != nil {
		return nil, err
	}
	if len(steps) == 0 || steps[0].State == nil {
		return nil, fmt.Errorf("empty behaviour %s", path)
	}
	s := &c19Schedule{Prog: tlaval.AsInt(steps[0].State["prog"]), Evaluated: tlaval.AsBool(steps[0].State["evaluated"]), Ngor: tlaval.AsInt(steps[0].State["ngor"])}
	for _, st := range steps[1:] {
		switch st.Action {
		case "Call":
			g, _ := strconv.Atoi(st.Args[0])
			op, _ := strconv.Atoi(st.Args[1])
			s.Steps = append(s.Steps, [2]int{g, op})
		case "Return":
			g, _ := strconv.Atoi(st.Args[0])
			s.Steps = append(s.Steps, [2]int{g, 0})
		}
	}
	return s, nil
}

func c19Compile(prog int, evaluated bool) (*cue.Context, cue.Value) {
	ctx := cuecontext.New()
	v := ctx.CompileString(c19Programs[prog-1])
	if evaluated {
		v.Validate()
	}
	return ctx, v
}

func c19Baseline(prog int, evaluated bool) []string {
	ctx, v := c19Compile(prog, evaluated)
	base := make([]string, c19NOps)
	for op := 1; op <= c19NOps; op++ {
		base[op-1] = c19Apply(ctx, v, op)
	}
	return base
}

// c19Run executes one schedule on a shared value.
var c19RunID atomic.Int64

func c19Run(s *c19Schedule, sharedCtx bool) c19History {
	c19RunID.Add(1)
	h := c19History{Prog: s.Prog, Evaluated: s.Evaluated, Ngor: s.Ngor, Mode: "shared"}
	if !sharedCtx {
		h.Mode = "separate-contexts"
	}
	h.Base = c19Baseline(s.Prog, s.Evaluated)
	// methods whose answer is not a function of the program even sequentially
	// are outside the claim; they are recorded and neutralised.
	again := c19Baseline(s.Prog, s.Evaluated)
	unstable := map[int]bool{}
	for i := range again {
		if again[i] != h.Base[i] {
			unstable[i+1] = true
			h.Unstable = append(h.Unstable, i+1)
			h.Base[i] = "unstable"
		}
	}
	ctx, v := c19Compile(s.Prog, s.Evaluated)
	var rt *cueruntime.Runtime
	rt, _ = value.ToInternal(v)
	type req struct{ op int }
	chans := make([]chan req, s.Ngor+1)
	results := make([]chan string, s.Ngor+1)
	var kmu sync.Mutex
	var wg sync.WaitGroup
	for g := 1; g <= s.Ngor; g++ {
		chans[g] = make(chan req, 1)
		results[g] = make(chan string, 1)
		wg.Add(1)
		go func(g int) {
			defer wg.Done()
			lctx, lv := ctx, v
			if !sharedCtx {
				lctx, lv = c19Compile(s.Prog, s.Evaluated)
			}
			n := 0
			for rq := range chans[g] {
				// label-index traffic: strings shared between goroutines
				key := fmt.Sprintf("vlabel_%d_%d", c19RunID.Load(), n%4)
				n++
				idx := rt.StringToIndex(key)
				back := rt.IndexToString(idx)
				kmu.Lock()
				h.Keys = append(h.Keys, c19Key{back, idx}, c19Key{key, idx})
				kmu.Unlock()
				results[g] <- c19Apply(lctx, lv, rq.op)
			}
		}(g)
	}
	inflight := map[int]int{}
	for _, st := range s.Steps {
		g, op := st[0], st[1]
		if g > s.Ngor {
			continue
		}
		if op != 0 {
			inflight[g] = op
			h.Ev = append(h.Ev, c19Event{Ev: "Call", G: g, Op: op})
			chans[g] <- req{op}
			runtime.Gosched()
		} else if o, ok := inflight[g]; ok {
			res := <-results[g]
			if unstable[o] {
				res = "unstable"
			}
			h.Ev = append(h.Ev, c19Event{Ev: "Return", G: g, Op: o, Res: res})
			delete(inflight, g)
		}
	}
	gs := []int{}
	for g := range inflight {
		gs = append(gs, g)
	}
	sort.Ints(gs)
	for _, g := range gs {
		res := <-results[g]
		if unstable[inflight[g]] {
			res = "unstable"
		}
		h.Ev = append(h.Ev, c19Event{Ev: "Return", G: g, Op: inflight[g], Res: res})
	}
	for g := 1; g <= s.Ngor; g++ {
		close(chans[g])
	}
	wg.Wait()
	h.Post = make([]string, c19NOps)
	for op := 1; op <= c19NOps; op++ {
		h.Post[op-1] = c19Apply(ctx, v, op)
		if unstable[op] {
			h.Post[op-1] = "unstable"
		}
	}
	if h.Keys == nil {
		h.Keys = []c19Key{}
	}
	if h.Ev == nil {
		h.Ev = []c19Event{}
	}
	return h
}

// workerC19 (built with -race) runs the schedules found in a directory and
// writes one history per line.
func workerC19(args []string) {
	fl := flag.NewFlagSet("c19", flag.ExitOnError)
	dir := fl.String("sim", "", "directory of TLC behaviour files")
	out := fl.String("out", "", "output ndjson")
	fl.Parse(args)
	files, _ := filepath.Glob(filepath.Join(*dir, "b_*"))
	sort.Strings(files)
	fh, err := os.Create(*out)
	if err != nil {
		fmt.Fprintln(os.Stderr, err)
		os.Exit(3)
	}
	w := bufio.NewWriter(fh)
	for i, f := range files {
		s, err := c19ReadSchedule(f)
		if err != nil {
			fmt.Fprintln(os.Stderr, "schedule:", err)
			os.Exit(3)
		}
		h := c19Run(s, i%4 != 3)
		b, _ := json.Marshal(h)
		w.Write(b)
		w.WriteByte('\n')
	}
	w.Flush()
	fh.Close()
}

func c19Cfg() string {
	return fmt.Sprintf(`SPECIFICATION TraceSpec
CONSTANTS G = 8 Keys = {"a"} NOps = %d NProgs = %d MaxCalls = 1000
CONSTRAINT Progress2
POSTCONDITION AllAccepted
CHECK_DEADLOCK FALSE
`, c19NOps, len(c19Programs))
}

func checkC19(r *kit.Run) {
	r.Assumptions = []string{
		"programs come from a fixed pool of 24 CUE sources; methods from a 16-entry alphabet (lookup, Fields, Unify, FillPath, Validate, Default, Syntax, Decode, MarshalJSON, YAML, Kind, Equals/Subsume, Eval, Walk) plus label-index lookups",
		"call/return interleavings are TLC -simulate behaviours of SharedRuntime.tla; which machine-level interleavings of the evaluator occur inside overlapping calls is decided by the Go scheduler (sampled, observed by the race detector)",
		"a method whose answer differs between two sequential runs on fresh contexts is outside the claim and neutralised (listed in the evidence)",
	}
	// 1. protocol: the label index, exhaustively
	res, err := kit.RunTLC(kit.TLCOpts{Module: "SharedRuntime", Cfg: "SharedRuntime_index.cfg", Coverage: true, Timeout: 20 * time.Minute})
	if err != nil || res.TimedOut || !res.OK() {
		out := res.Tail(40)
		res.Cleanup()
		r.Fatal("SharedRuntime label-index model failed (design level): %v %s\n%s", err, res.Violation, out)
	}
	r.AddTLC("SharedRuntime_index.cfg", res)
	res.Cleanup()

	// 2. schedules from TLC -simulate
	n := kit.Pick(r, 400, 4000)
	sim, err := kit.RunTLC(kit.TLCOpts{Module: "SharedRuntime", Cfg: "SharedRuntime_sim.cfg", Workers: 1, Simulate: fmt.Sprintf("num=%d", n), SimFiles: true, Depth: 60, Seed: r.Seed + 17, Timeout: 20 * time.Minute})
	defer sim.Cleanup()
	if err != nil || sim.TimedOut || sim.ExitCode != 0 {
		r.Fatal("TLC -simulate: %v\n%s", err, sim.Tail(30))
	}
	files, _ := filepath.Glob(filepath.Join(sim.SimDir, "b_*"))
	if len(files) < n/2 {
		r.Fatal("TLC -simulate produced %d behaviours, wanted %d", len(files), n)
	}
	// 3. run them in a child built with the race detector
	race := filepath.Join(kit.VerifDir(), ".build", "vh-race")
	if _, err := os.Stat(race); err != nil {
		r.Fatal("race-enabled harness %s missing (bin/check builds it for C19)", race)
	}
	// split into chunks so that a race report identifies a small set
	chunkSize := 40
	var chunks [][]string
	for i := 0; i < len(files); i += chunkSize {
		j := i + chunkSize
		if j > len(files) {
			j = len(files)
		}
		chunks = append(chunks, files[i:j])
	}
	type chunkRes struct {
		hist  []c19History
		race  string
		crash string
	}
	out := make([]chunkRes, len(chunks))
	kit.ParallelN(len(chunks), 4, func(_, ci int) {
		d, _ := os.MkdirTemp("", "vh-c19-")
		defer os.RemoveAll(d)
		for _, f := range chunks[ci] {
			b, _ := os.ReadFile(f)
			os.WriteFile(filepath.Join(d, filepath.Base(f)), b, 0o644)
		}
		outFile := filepath.Join(d, "hist.ndjson")
		cmd := exec.Command(race, "worker", "c19", "--sim", d, "--out", outFile)
		cmd.Env = append(os.Environ(), "GORACE=halt_on_error=0 exitcode=66")
		var eb bytes.Buffer
		cmd.Stderr = &eb
		done := make(chan error, 1)
		cmd.Start()
		go func() { done <- cmd.Wait() }()
		var werr error
		select {
		case werr = <-done:
		case <-time.After(10 * time.Minute):
			cmd.Process.Kill()
			out[ci].crash = "timeout: concurrent calls did not finish (deadlock?)\n" + eb.String()
			return
		}
		if strings.Contains(eb.String(), "WARNING: DATA RACE") {
			out[ci].race = eb.String()
		} else if werr != nil {
			out[ci].crash = fmt.Sprintf("%v\n%s", werr, eb.String())
		}
		b, _ := os.ReadFile(outFile)
		for _, l := range bytes.Split(b, []byte("\n")) {
			if len(l) == 0 {
				continue
			}
			var h c19History
			if json.Unmarshal(l, &h) == nil {
				out[ci].hist = append(out[ci].hist, h)
			}
		}
	})
	var hist []c19History
	unstable := map[string]bool{}
	for ci, c := range out {
		if c.race != "" {
			rep := c.race
			if len(rep) > 6000 {
				rep = rep[:6000]
			}
			first := raceKey(c.race)
			r.Violation("data race "+first, "the race detector reported a data race while goroutines used shared cue.Values", map[string]any{"report": rep, "schedules": len(chunks[ci])})
		}
		if c.crash != "" {
			msg := c.crash
			if len(msg) > 4000 {
				msg = msg[:4000]
			}
			if strings.Contains(msg, "panic:") || strings.Contains(msg, "fatal error:") || strings.Contains(msg, "timeout:") {
				r.Violation("crash under concurrent use "+firstLine(msg), "the process running concurrent calls crashed or hung", map[string]any{"output": msg})
			} else {
				r.Fatal("c19 worker failed: %s", msg)
			}
		}
		hist = append(hist, c.hist...)
	}
	for _, h := range hist {
		for _, u := range h.Unstable {
			unstable[fmt.Sprintf("prog %d op %d", h.Prog, u)] = true
		}
	}
	lines := make([][]byte, len(hist))
	calls := 0
	for i, h := range hist {
		lines[i], _ = json.Marshal(h)
		calls += len(h.Ev) / 2
	}
	rej, cons := kit.ValidateTraces(r, "SharedRuntimeTrace", c19Cfg(), lines, "histories", 5)
	for _, i := range rej {
		h := hist[i]
		what := "a concurrent call returned something else than it returns when run alone, or the shared value changed"
		if cons[i] < len(h.Ev) {
			e := h.Ev[cons[i]]
			what = fmt.Sprintf("call op=%d by goroutine %d (%s) returned %s, alone it returns %s", e.Op, e.G, h.Mode, e.Res, h.Base[e.Op-1])
		}
		r.Violation(fmt.Sprintf("history prog=%d evaluated=%v mode=%s #%d", h.Prog, h.Evaluated, h.Mode, i), what, map[string]any{"program": c19Programs[h.Prog-1], "history": h, "matched_events": cons[i]})
	}
	if len(hist) > 0 {
		r.Sample(map[string]any{"program": c19Programs[hist[0].Prog-1], "goroutines": hist[0].Ngor, "events": hist[0].Ev})
	}
	// canary: a wrong answer and a changed value must be rejected
	caught := 0
	if len(hist) > 0 {
		for ci := 0; ci < 2; ci++ {
			var h c19History
			for _, x := range hist {
				if len(x.Ev) > 4 {
					h = x
					break
				}
			}
			h.Ev = append([]c19Event(nil), h.Ev...)
			h.Post = append([]string(nil), h.Post...)
			if ci == 0 {
				for i := range h.Ev {
					if h.Ev[i].Ev == "Return" {
						h.Ev[i].Res = "deadbeef0000"
						break
					}
				}
			} else {
				h.Post[3] = "deadbeef0000"
			}
			b, _ := json.Marshal(h)
			rj, _ := kit.ValidateTraces(r, "SharedRuntimeTrace", c19Cfg(), [][]byte{b}, fmt.Sprintf("canary %d", ci), 1)
			if len(rj) == 1 {
				caught++
			}
		}
	}
	if caught != 2 {
		r.Fatal("canary: %d of 2 corrupted histories rejected", caught)
	}
	us := []string{}
	for k := range unstable {
		us = append(us, k)
	}
	sort.Strings(us)
	r.Set("sequentially_unstable_methods", us)
	r.Set("traces_validated_against_impl", len(hist))
	r.Set("calls", calls)
	r.Set("evaluations", calls)
	r.Set("distinct_nontrivial", len(hist))
	r.Set("canaries_rejected", caught)
	r.Set("rule", "each TLC -simulate behaviour of SharedRuntime.tla (program, evaluated or not, 2..8 goroutines, interleaved Call/Return sequence of 40 calls over 19 methods (incl. FillPath and Encode of Go containers that hold the shared value)) is executed under the race detector on one shared value (3 of 4) or with one context per goroutine (1 of 4); the recorded history is validated by TLC against SharedRuntimeTrace.tla; distinct_nontrivial = histories")
}

func raceKey(rep string) string {
	// first two frames of the first report
	lines := strings.Split(rep, "\n")
	var fr []string
	for _, l := range lines {
		t := strings.TrimSpace(l)
		if strings.HasPrefix(t, "cuelang.org/go") && len(fr) < 2 {
			fr = append(fr, strings.SplitN(t, "(", 2)[0])
		}
	}
	return strings.Join(fr, " / ")
}

func firstLine(s string) string {
	for _, l := range strings.Split(s, "\n") {
		if strings.Contains(l, "panic:") || strings.Contains(l, "fatal error:") || strings.Contains(l, "timeout:") {
			return strings.TrimSpace(l)
		}
	}
	return ""
}

package main

import (
	"bytes"
	"encoding/json"
	"fmt"
	"hash/fnv"
	"os"
	"path/filepath"
	"sort"
	"strings"
	"sync/atomic"
	"time"

	"cuelang.org/go/cue"
	"cuelang.org/go/cue/ast"
	"cuelang.org/go/cue/build"
	"cuelang.org/go/cue/cuecontext"
	"cuelang.org/go/cue/format"
	"cuelang.org/go/cue/parser"
	"cuelang.org/go/verifharness/kit"
	"cuelang.org/go/verifharness/tlaval"
)

func init() { register("C20", "model_checking", checkC20) }

// trimEval evaluates a package given as file sources and returns its
// projection: per top-level field the JSON with defaults resolved, or the
// error class.
func trimEval(srcs []string) (map[string]string, []*ast.File, cue.Value, error) {
	ctx := cuecontext.New()
	bi := build.NewContext().NewInstance("", nil)
	var files []*ast.File
	for i, src := range srcs {
		f, err := parser.ParseFile(fmt.Sprintf("f%d.cue", i), src, parser.ParseComments)
		if err != nil {
			return nil, nil, cue.Value{}, fmt.Errorf("parse f%d: %v", i, err)
		}
		if err := bi.AddSyntax(f); err != nil {
			return nil, nil, cue.Value{}, err
		}
		files = append(files, f)
	}
	v := ctx.BuildInstance(bi)
	out := map[string]string{}
	it, err := v.Fields(cue.Definitions(true))
	if err != nil {
		out["$root"] = "ERROR"
		return out, files, v, nil
	}
	for it.Next() {
		fv := it.Value()
		if err := fv.Validate(cue.Concrete(true), cue.Final()); err != nil {
			if errClass(fv) == "error" || fv.Err() != nil {
				out[it.Selector().String()] = "ERROR"
			} else {
				// incomplete: compare the printed final form
				b, _ := format.Node(fv.Syntax(cue.Final()))
				out[it.Selector().String()] = "INCOMPLETE " + string(b)
			}
			continue
		}
		b, err := fv.MarshalJSON()
		if err != nil {
			out[it.Selector().String()] = "ERROR"
			continue
		}
		out[it.Selector().String()] = canonJSON(b)
	}
	return out, files, v, nil
}

// trimOnce runs `cue trim` (the binary built from the working tree) on the
// package in a scratch module and returns the rewritten files.
func trimOnce(srcs []string) ([]string, error) {
	dir, err := os.MkdirTemp("", "vh-trim-")
	if err != nil {
		return nil, err
	}
	defer os.RemoveAll(dir)
	os.MkdirAll(filepath.Join(dir, "cue.mod"), 0o755)
	os.WriteFile(filepath.Join(dir, "cue.mod", "module.cue"), []byte("module: \"example.com/p@v0\"\nlanguage: version: \"v0.9.0\"\n"), 0o644)
	for i, s := range srcs {
		os.WriteFile(filepath.Join(dir, fmt.Sprintf("f%d.cue", i)), []byte(s), 0o644)
	}
	cueBinary = filepath.Join(kit.VerifDir(), ".build", "cue")
	so, se, code := runCue(dir, "trim", ".")
	if code != 0 {
		return nil, fmt.Errorf("cue trim exit %d: %s %s", code, so, se)
	}
	var out []string
	for i := range srcs {
		b, err := os.ReadFile(filepath.Join(dir, fmt.Sprintf("f%d.cue", i)))
		if err != nil {
			return nil, err
		}
		out = append(out, string(b))
	}
	return out, nil
}

// canonJSON re-encodes JSON with sorted object keys (field order is not data).
func canonJSON(b []byte) string {
	dec := json.NewDecoder(bytes.NewReader(b))
	dec.UseNumber()
	var x any
	if err := dec.Decode(&x); err != nil {
		return string(b)
	}
	out, err := json.Marshal(x)
	if err != nil {
		return string(b)
	}
	return string(out)
}

func projString(m map[string]string) string {
	var ks []string
	for k := range m {
		ks = append(ks, k)
	}
	sort.Strings(ks)
	var b strings.Builder
	for _, k := range ks {
		fmt.Fprintf(&b, "%s=%s\n", k, m[k])
	}
	return b.String()
}

func checkC20(r *kit.Run) {
	r.Assumptions = []string{
		"packages: 14 schema declarations (all, or all but one) and up to 2 (thorough 3) of 22 data declarations, in one file or split over two (Trim.tla)",
		"the evaluated configuration is compared per top-level field: JSON with defaults resolved when concrete, the printed final form when incomplete, ERROR when in error",
	}
	res, err := kit.RunTLC(kit.TLCOpts{Module: "Trim", CfgText: "INIT TablesInit\nNEXT Next\nCONSTANTS MaxData = 0 AllVariants = FALSE\n", Dump: true, Workers: 1, Timeout: 5 * time.Minute})
	if err != nil || !res.OK() {
		r.Fatal("Trim tables: %v\n%s", err, res.Tail(20))
	}
	var schemas, data []string
	kit.ForEachState(res.DumpPath, nil, 1, func(_ int, st tlaval.State) {
		rec := tlaval.AsRec(st["schema"])
		for _, x := range tlaval.AsSeq(rec["schemas"]) {
			schemas = append(schemas, tlaval.AsStr(x))
		}
		for _, x := range tlaval.AsSeq(rec["data"]) {
			data = append(data, tlaval.AsStr(x))
		}
	})
	res.Cleanup()
	res, err = kit.RunTLC(kit.TLCOpts{Module: "Trim", CfgText: fmt.Sprintf("INIT Init\nNEXT Next\nCONSTANTS MaxData = %d AllVariants = %s\n", kit.Pick(r, 2, 3), kit.Pick(r, "FALSE", "TRUE")), Dump: true, Timeout: 20 * time.Minute, Heap: "16g"})
	defer res.Cleanup()
	if err != nil || res.TimedOut || !res.OK() {
		r.Fatal("Trim model: %v\n%s", err, res.Tail(20))
	}
	r.AddTLC("Trim packages", res)
	var pkgs, trimmedSomething, errPkgs, canary, caught, skipped int64
	n, err := kit.ForEachState(res.DumpPath, nil, 8, func(w int, st tlaval.State) {
		var sdecl, ddecl []string
		for _, i := range tlaval.IntSet(st["schema"]) {
			sdecl = append(sdecl, schemas[i-1])
		}
		for _, i := range tlaval.IntSet(st["data"]) {
			ddecl = append(ddecl, data[i-1])
		}
		split := len(tlaval.AsSet(st["file2"])) > 0
		var srcs []string
		if split {
			srcs = []string{"package p\n" + strings.Join(sdecl, "\n") + "\n", "package p\n" + strings.Join(ddecl, "\n") + "\n"}
		} else {
			srcs = []string{"package p\n" + strings.Join(sdecl, "\n") + "\n" + strings.Join(ddecl, "\n") + "\n"}
		}
		key := fmt.Sprintf("schemas=%v data=%v split=%v", tlaval.IntSet(st["schema"]), ddecl, split)
		if len(ddecl) >= 3 {
			// three data declarations x all schema variants is ~45 k packages (two trims each through
			// the binary): a quarter of them, chosen by the seed, keeps the thorough tier under an hour
			h := fnv.New32a()
			h.Write([]byte(key))
			if int64(h.Sum32()%4) != r.Seed%4 {
				atomic.AddInt64(&skipped, 1)
				return
			}
		}
		atomic.AddInt64(&pkgs, 1)
		before, _, _, err := trimEval(srcs)
		if err != nil {
			r.Fatal("generated package does not parse: %v\n%s", err, strings.Join(srcs, "\n---\n"))
		}
		t1, err := trimOnce(srcs)
		if err != nil {
			if strings.Contains(projString(before), "ERROR") {
				atomic.AddInt64(&errPkgs, 1)
				return // trimming an erroneous package may refuse
			}
			r.Violation("trim fails "+key, "trim fails on a package that evaluates: "+err.Error(), map[string]any{"files": srcs})
			return
		}
		after, _, _, err := trimEval(t1)
		if err != nil {
			r.Violation("trim output "+key, "the trimmed package does not parse: "+err.Error(), map[string]any{"files": srcs, "trimmed": t1})
			return
		}
		if projString(before) != projString(after) {
			r.Violation("trim changes "+key, fmt.Sprintf("the evaluated configuration changed:\nbefore:\n%safter:\n%s", projString(before), projString(after)), map[string]any{"files": srcs, "trimmed": t1})
			return
		}
		if strings.Join(t1, "\x00") != strings.Join(srcsNormalised(srcs), "\x00") {
			atomic.AddInt64(&trimmedSomething, 1)
		}
		t2, err := trimOnce(t1)
		if err != nil {
			r.Violation("trim twice "+key, "trimming the trimmed package fails: "+err.Error(), map[string]any{"files": srcs, "trimmed": t1})
			return
		}
		if strings.Join(t1, "\x00") != strings.Join(t2, "\x00") {
			r.Violation("trim not idempotent "+key, "trimming the trimmed files again removes more", map[string]any{"files": srcs, "trimmed": t1, "trimmed_again": t2})
		}
		if pkgs%300 == 1 {
			atomic.AddInt64(&canary, 1)
			// canary: dropping a data declaration by hand must change the projection or the text
			alt := map[string]string{}
			for k, v := range before {
				alt[k] = v
			}
			alt["x"] = "changed"
			if projString(alt) != projString(after) {
				atomic.AddInt64(&caught, 1)
			}
			r.Sample(map[string]any{"files": srcs, "trimmed": t1})
		}
	})
	if err != nil {
		r.Fatal("Trim dump: %v", err)
	}
	if (canary == 0 && r.Violations() == 0) || caught != canary {
		// (with violations reported the run may never reach a package that passes all steps)
		r.Fatal("canary failed")
	}
	r.Set("traces_validated_against_impl", n)
	r.Set("evaluations", int(pkgs))
	r.Set("packages_where_trim_removed_something", int(trimmedSomething))
	r.Set("three_data_packages_left_to_other_seeds", int(skipped))
	r.Set("erroneous_packages_refused", int(errPkgs))
	r.Set("distinct_nontrivial", int(trimmedSomething))
	r.Set("canaries_rejected", int(caught))
	r.Set("exhaustive", true)
	r.Set("rule", "every package state of Trim.tla; rendered, evaluated, trimmed with tools/trim, evaluated again (projection per top-level field must be identical, errors included), trimmed again (files must not change); non-trivial = packages where trim removed something")
}

func srcsNormalised(srcs []string) []string {
	var out []string
	for i, s := range srcs {
		f, err := parser.ParseFile(fmt.Sprintf("f%d.cue", i), s, parser.ParseComments)
		if err != nil {
			return srcs
		}
		b, _ := format.Node(f)
		out = append(out, string(b))
	}
	return out
}

func init() {
	workers["trimdebug"] = func(args []string) {
		out, err := trimOnce(args)
		fmt.Println(err)
		for _, o := range out {
			fmt.Println(o)
		}
	}
}

// Command vh is the verification harness: one sub-command per property.
//
//	vh check <ID> [--tier quick|thorough] [--replay path]
package main

import (
	"flag"
	"fmt"
	"os"
	"sort"

	"cuelang.org/go/verifharness/kit"
)

type checkFn func(r *kit.Run)

type checkDef struct {
	level string
	fn    checkFn
}

var checks = map[string]checkDef{}

// workers maps worker-mode names (child processes) to entry points.
var workers = map[string]func(args []string){}

func register(id, level string, fn checkFn) { checks[id] = checkDef{level, fn} }

var replayPath string

func main() {
	if len(os.Args) < 2 {
		usage()
	}
	switch os.Args[1] {
	case "check":
		fs := flag.NewFlagSet("check", flag.ExitOnError)
		tier := fs.String("tier", envOr("VERIF_TIER", "quick"), "quick|thorough")
		fs.StringVar(&replayPath, "replay", "", "replay file")
		if len(os.Args) < 3 {
			usage()
		}
		id := os.Args[2]
		fs.Parse(os.Args[3:])
		if *tier != "quick" && *tier != "thorough" {
			*tier = "quick"
		}
		if replayPath != "" {
			os.Setenv("VERIF_REPLAY", replayPath)
		}
		def, ok := checks[id]
		if !ok {
			fmt.Fprintf(os.Stderr, "unknown property %s\n", id)
			os.Exit(2)
		}
		r := kit.NewRun(id, *tier, def.level)
		def.fn(r)
		os.Exit(r.Finish())
	case "worker":
		if len(os.Args) < 3 {
			usage()
		}
		w, ok := workers[os.Args[2]]
		if !ok {
			fmt.Fprintf(os.Stderr, "unknown worker %s\n", os.Args[2])
			os.Exit(2)
		}
		w(os.Args[3:])
	case "list":
		ids := []string{}
		for id := range checks {
			ids = append(ids, id)
		}
		sort.Strings(ids)
		for _, id := range ids {
			fmt.Println(id)
		}
	default:
		usage()
	}
}

func envOr(k, d string) string {
	if v := os.Getenv(k); v != "" {
		return v
	}
	return d
}

func usage() {
	fmt.Fprintln(os.Stderr, "usage: vh check <ID> [--tier quick|thorough] [--replay path] | vh worker <name> ... | vh list")
	os.Exit(2)
}

package main

import (
	"fmt"
	"sort"
	"strings"

	"cuelang.org/go/cue"
	"cuelang.org/go/internal/core/adt"
	"cuelang.org/go/internal/value"
)

// canon projects a cue.Value to a text that is the same for semantically
// identical values: error class (text ignored), kind mask, concrete scalar,
// fields with their kinds (regular / optional / required / hidden /
// definition) in sorted order, closedness, acceptance of a fixed set of
// probe values, and the default. Field order and error wording are
// deliberately not part of it.

var canonScalarProbes = []string{"0", "1", "2", "-1", "10", "11", "1.5", `"a"`, `"s"`, `"sx"`, "true", "null", "'b'"}
var canonStructProbes = []string{"{}", "{x: 1}", "{x: 2}", "{y: 1}", "{y: 2}", "{x: 1, y: 1}", "{x: 1, y: 2}", "{z: 1}", `{x: "s"}`, "{a: 2}", "[1, 2]", "[1]", "[]"}

type canonCtx struct {
	ctx    *cue.Context
	probes []cue.Value
	names  []string
}

func newCanonCtx(ctx *cue.Context) *canonCtx {
	c := &canonCtx{ctx: ctx}
	for _, p := range append(append([]string{}, canonScalarProbes...), canonStructProbes...) {
		c.probes = append(c.probes, ctx.CompileString(p))
		c.names = append(c.names, p)
	}
	return c
}

func errClass(v cue.Value) string {
	if !v.Exists() {
		return "absent"
	}
	_, vx := value.ToInternal(v)
	if vx == nil {
		return "nil"
	}
	if b := vx.Bottom(); b != nil {
		if b.IsIncomplete() {
			return "incomplete"
		}
		return "error"
	}
	if err := v.Err(); err != nil {
		return "error"
	}
	return "ok"
}

func (c *canonCtx) canon(v cue.Value, depth int) string {
	ec := errClass(v)
	if ec == "absent" {
		return "absent"
	}
	if ec == "error" {
		return "ERROR"
	}
	var b strings.Builder
	fmt.Fprintf(&b, "%s|k=%v", ec, v.IncompleteKind())
	if depth <= 0 {
		return b.String()
	}
	k := v.IncompleteKind()
	switch {
	case ec == "ok" && v.IsConcrete() && k&(cue.StructKind|cue.ListKind) == 0:
		fmt.Fprintf(&b, "|v=%v", v)
		return b.String()
	}
	// structure, when the value is a single struct or list
	if ec == "ok" && k == cue.StructKind {
		if it, err := v.Fields(cue.All()); err == nil {
			var fs []string
			for it.Next() {
				sel := it.Selector()
				kind := "reg"
				switch sel.ConstraintType() {
				case cue.OptionalConstraint:
					kind = "opt"
				case cue.RequiredConstraint:
					kind = "req"
				}
				fs = append(fs, fmt.Sprintf("%s:%s=(%s)", sel.String(), kind, c.canon(it.Value(), depth-1)))
			}
			sort.Strings(fs)
			fmt.Fprintf(&b, "|fields{%s}|open=%v,%v", strings.Join(fs, ";"), v.Allows(cue.AnyString), v.Allows(cue.Str("zzq")))
		} else {
			b.WriteString("|nofields")
		}
	}
	if ec == "ok" && k == cue.ListKind {
		if it, err := v.List(); err == nil {
			var es []string
			for it.Next() {
				es = append(es, c.canon(it.Value(), depth-1))
			}
			fmt.Fprintf(&b, "|list[%s]|open=%v", strings.Join(es, ","), v.Allows(cue.AnyIndex))
		}
	}
	// default
	if d, ok := v.Default(); ok {
		dc := errClass(d)
		if dc == "ok" && d.IsConcrete() && d.IncompleteKind()&(cue.StructKind|cue.ListKind) == 0 {
			fmt.Fprintf(&b, "|def=%v", d)
		} else if depth > 1 {
			fmt.Fprintf(&b, "|def=(%s)", c.canon(d, 1))
		}
	}
	// concreteness verdict
	if v.Validate(cue.Concrete(true)) == nil {
		b.WriteString("|concrete")
	}
	return b.String()
}

var _ = adt.Bottom{}

package main

import (
	"encoding/json"
	"fmt"
	"math/rand"
	"sort"
	"sync"
	"time"

	"cuelang.org/go/verifharness/kit"
	"cuelang.org/go/verifharness/tlaval"
)

func init() { register("C18", "model_checking", checkC18) }

type flowTrace struct {
	WF   map[string]any `json:"wf"`
	Ev   []flowEvent    `json:"ev"`
	c    *flowCase
	pick []int
}

// flowSchedules runs c under every completion order (or up to max orders).
func flowSchedules(c *flowCase, max int) ([]flowTrace, error) {
	var out []flowTrace
	script := []int{}
	for {
		var sizes []int
		pos := 0
		var picks []int
		tr, err := runFlow(c, func(running []int) int {
			ch := 0
			if pos < len(script) {
				ch = script[pos]
			}
			if ch >= len(running) {
				ch = 0
			}
			sizes = append(sizes, len(running))
			pos++
			picks = append(picks, running[ch])
			return running[ch]
		})
		if err != nil {
			return out, fmt.Errorf("%v (case %s, picks %v)", err, c.key(), picks)
		}
		for i := range tr {
			if tr[i].St == nil {
				tr[i].St = []string{}
			}
			if tr[i].Seen == nil {
				tr[i].Seen = []int{}
			}
		}
		out = append(out, flowTrace{WF: c.header(), Ev: tr, c: c, pick: picks})
		if max > 0 && len(out) >= max {
			return out, nil
		}
		// next script (odometer over the choice sizes actually seen)
		cur := make([]int, len(sizes))
		copy(cur, script)
		j := len(sizes) - 1
		for j >= 0 {
			if cur[j]+1 < sizes[j] {
				cur[j]++
				cur = cur[:j+1]
				break
			}
			j--
		}
		if j < 0 {
			return out, nil
		}
		script = cur
	}
}

func (c *flowCase) key() string {
	b, _ := json.Marshal(c)
	return string(b)
}

func (c *flowCase) header() map[string]any {
	deps := make([][]int, c.N)
	for i := range deps {
		deps[i] = append([]int{}, c.Deps[i]...)
	}
	return map[string]any{"deps": deps, "latentOf": c.LatentOf, "failing": c.Failing}
}

func flowCfg(n int) string {
	return fmt.Sprintf(`SPECIFICATION TraceSpec
CONSTANTS N = %d AllowCycles = TRUE AllowLatent = TRUE AllowFail = TRUE
INVARIANTS StartAfterDeps AtMostOnce LatentDiscipline NoDeadlock AtExit
CONSTRAINT Progress2
POSTCONDITION AllAccepted
CHECK_DEADLOCK FALSE
`, n)
}

// flowCasesFromDump extracts the distinct workflows of a Flow.tla run.
func flowCasesFromDump(r *kit.Run, cfg string, n int) []*flowCase {
	res, err := kit.RunTLC(kit.TLCOpts{Module: "Flow", Cfg: cfg, Dump: true, Coverage: true, Timeout: 30 * time.Minute, Heap: "16g"})
	defer res.Cleanup()
	if err != nil || res.TimedOut {
		r.Fatal("TLC Flow %s: %v timedout=%v\n%s", cfg, err, res.TimedOut, res.Tail(30))
	}
	if !res.OK() {
		r.Fatal("Flow model property failed at design level (%s), not a code verdict\n%s", res.Violation, res.Tail(60))
	}
	r.AddTLC(cfg, res)
	for a, cnt := range res.Coverage {
		if cnt == 0 && a != "Init" {
			r.Fatal("Flow %s: action %s never taken (vacuous model run)", cfg, a)
		}
	}
	seen := map[string]bool{}
	var mu sync.Mutex
	var out []*flowCase
	_, err = kit.ForEachState(res.DumpPath, []string{"deps", "latentOf", "failing", "phase"}, 8, func(_ int, st tlaval.State) {
		if tlaval.AsStr(st["phase"]) != "new" {
			return
		}
		c := &flowCase{N: n, Failing: tlaval.AsInt(st["failing"])}
		dm := tlaval.AsSeq(st["deps"])
		for t := 0; t < n; t++ {
			ds := tlaval.IntSet(dm[t])
			if ds == nil {
				ds = []int{}
			}
			c.Deps = append(c.Deps, ds)
			c.Via = append(c.Via, make([]int, len(ds)))
		}
		c.LatentOf = tlaval.IntSeq(st["latentOf"])
		k := c.key()
		mu.Lock()
		if !seen[k] {
			seen[k] = true
			out = append(out, c)
		}
		mu.Unlock()
	})
	if err != nil {
		r.Fatal("Flow dump: %v", err)
	}
	sort.Slice(out, func(i, j int) bool { return out[i].key() < out[j].key() })
	return out
}

func (c *flowCase) withVia(kind int, rng *rand.Rand) *flowCase {
	d := *c
	d.Via = make([][]int, c.N)
	for t := range c.Deps {
		d.Via[t] = make([]int, len(c.Deps[t]))
		for i := range d.Via[t] {
			if kind == 0 {
				d.Via[t][i] = 1 + rng.Intn(5)
			} else {
				d.Via[t][i] = kind
			}
		}
	}
	// the configuration flag of `cue cmd`: on for the list renderings and for half of the others
	d.IgnoreConcrete = kind == 4 || kind == 5 || rng.Intn(2) == 0
	return &d
}

func checkC18(r *kit.Run) {
	r.Assumptions = []string{
		"runners are gated by the harness: a completion order is a sequence of gate releases, each awaited until the controller calls back; the order in which goroutines of one dispatch pass start is not controlled (events sorted)",
		"dependencies are rendered as direct references, references through a nested non-task field, through a computed field, or to a list-valued field (directly / through a nested field); flow.Config.IgnoreConcrete is on for the list renderings and half of the others; latent tasks sit behind `if tK.out != _|_`",
		"service / deferred tasks and ForkRunLoop are outside the model",
	}
	rng := rand.New(rand.NewSource(r.Seed))
	// liveness of the design
	lres, err := kit.RunTLC(kit.TLCOpts{Module: "Flow", Cfg: "Flow_live.cfg", Timeout: 20 * time.Minute})
	if err != nil || lres.TimedOut || !lres.OK() {
		out := lres.Tail(40)
		lres.Cleanup()
		r.Fatal("Flow liveness config failed (design level): %v %s\n%s", err, lres.Violation, out)
	}
	r.AddTLC("Flow_live.cfg", lres)
	lres.Cleanup()

	type group struct {
		n     int
		cases []*flowCase
	}
	groups := []group{{3, flowCasesFromDump(r, "Flow_quick.cfg", 3)}}
	c4 := flowCasesFromDump(r, "Flow_dag4.cfg", 4)
	if !r.Thorough() {
		var s []*flowCase
		for _, c := range c4 {
			if rng.Intn(6) == 0 {
				s = append(s, c)
			}
		}
		c4 = s
	}
	groups = append(groups, group{4, c4})
	if r.Thorough() {
		c5 := flowCasesFromDump(r, "Flow_dag5.cfg", 5)
		var s []*flowCase
		for _, c := range c5 {
			if rng.Intn(8) == 0 {
				s = append(s, c)
			}
		}
		groups = append(groups, group{5, s})
	}
	totalTraces, totalCases := 0, 0
	var firstTrace *flowTrace
	for _, g := range groups {
		var mu sync.Mutex
		var traces []flowTrace
		var runErr error
		var jobs []*flowCase
		for _, c := range g.cases {
			kinds := []int{1, 4, 0}
			if r.Thorough() {
				kinds = []int{1, 2, 3, 4, 5, 0}
			} else if rng.Intn(2) == 0 {
				kinds = []int{2 + rng.Intn(2), 4 + rng.Intn(2), 0}
			}
			for _, k := range kinds {
				jobs = append(jobs, c.withVia(k, rng))
			}
		}
		kit.ParallelN(len(jobs), 16, func(_, i int) {
			ts, err := flowSchedules(jobs[i], kit.Pick(r, 30, 200))
			mu.Lock()
			defer mu.Unlock()
			if err != nil && runErr == nil {
				runErr = err
				// a hang / timeout of the real controller is a property violation
				// (deadlock instead of a report); record with what we have
				r.Violation("hang "+jobs[i].key(), err.Error(), map[string]any{"workflow": jobs[i], "cue": jobs[i].render()})
			}
			traces = append(traces, ts...)
		})
		sort.Slice(traces, func(i, j int) bool {
			a, b := traces[i].c.key(), traces[j].c.key()
			if a != b {
				return a < b
			}
			return fmt.Sprint(traces[i].pick) < fmt.Sprint(traces[j].pick)
		})
		totalTraces += len(traces)
		totalCases += len(jobs)
		if firstTrace == nil && len(traces) > 0 {
			for i := range traces {
				if len(traces[i].Ev) > 8 && traces[i].c.Failing == 0 {
					firstTrace = &traces[i]
					break
				}
			}
		}
		r.Logf("N=%d: %d workflows (x renderings = %d), %d schedules run", g.n, len(g.cases), len(jobs), len(traces))
		// validate in chunks, in parallel
		chunk := 4000
		var chunks [][]flowTrace
		for i := 0; i < len(traces); i += chunk {
			j := i + chunk
			if j > len(traces) {
				j = len(traces)
			}
			chunks = append(chunks, traces[i:j])
		}
		kit.ParallelN(len(chunks), 6, func(_, ci int) {
			lines := make([][]byte, len(chunks[ci]))
			for i, t := range chunks[ci] {
				lines[i], _ = json.Marshal(t)
			}
			rej, cons := kit.ValidateTraces(r, "FlowTrace", flowCfg(g.n), lines, fmt.Sprintf("N=%d chunk %d", g.n, ci), 5)
			for _, i := range rej {
				t := chunks[ci][i]
				r.Violation("workflow "+t.c.key()+" order "+fmt.Sprint(t.pick),
					fmt.Sprintf("execution of tools/flow is not a behaviour of Flow.tla (matched %d of %d events)", cons[i], len(t.Ev)),
					map[string]any{"workflow": t.c, "cue": t.c.render(), "completion_order": t.pick, "events": t.Ev, "matched_events": cons[i]})
			}
		})
		if len(traces) > 0 {
			r.Sample(map[string]any{"workflow": traces[len(traces)/2].c, "completion_order": traces[len(traces)/2].pick, "events": len(traces[len(traces)/2].Ev)})
		}
	}
	// canaries
	if firstTrace == nil {
		r.Fatal("no trace suitable as canary base")
	}
	caught := 0
	for ci, mut := range []func(t *flowTrace){
		func(t *flowTrace) { // a runner saw one dependency result missing
			for i := range t.Ev {
				if t.Ev[i].Ev == "Start" && len(t.Ev[i].Seen) > 0 {
					t.Ev[i].Seen = t.Ev[i].Seen[1:]
					return
				}
			}
			t.Ev[len(t.Ev)-1].Fin = false
		},
		func(t *flowTrace) { // a task became Ready too early
			for i := range t.Ev {
				if t.Ev[i].Ev == "Update" {
					for j, s := range t.Ev[i].St {
						if s == "Waiting" {
							st := append([]string(nil), t.Ev[i].St...)
							st[j] = "Ready"
							t.Ev[i].St = st
							return
						}
					}
				}
			}
			t.Ev[len(t.Ev)-1].Fin = false
		},
		func(t *flowTrace) { // a task started twice
			for i := range t.Ev {
				if t.Ev[i].Ev == "Start" {
					ev := append([]flowEvent(nil), t.Ev[:i+1]...)
					ev = append(ev, t.Ev[i])
					t.Ev = append(ev, t.Ev[i+1:]...)
					return
				}
			}
		},
	} {
		c := *firstTrace
		c.Ev = append([]flowEvent(nil), firstTrace.Ev...)
		mut(&c)
		line, _ := json.Marshal(c)
		rej, _ := kit.ValidateTraces(r, "FlowTrace", flowCfg(c.c.N), [][]byte{line}, fmt.Sprintf("canary %d", ci), 1)
		if len(rej) == 1 {
			caught++
		}
	}
	if caught != 3 {
		r.Fatal("canary: only %d of 3 corrupted traces rejected", caught)
	}
	r.Set("traces_validated_against_impl", totalTraces)
	r.Set("evaluations", totalTraces)
	r.Set("distinct_nontrivial", totalCases)
	r.Set("canaries_rejected", caught)
	r.Set("rule", "workflows = distinct initial states of Flow.tla (all dependency relations on 3 tasks incl. cyclic, all forward DAGs on 4 (thorough: sample of 5) tasks, with latent tasks and one failing task), each rendered with direct / nested-field / computed-field / list-valued references, with and without IgnoreConcrete; every completion order (bounded per workflow) is executed on the real controller with gated runners; every execution is validated by TLC against FlowTrace.tla (state vector at every callback, dependency results seen by each runner, outcome and final configuration); distinct_nontrivial = workflow renderings executed")
}

package main

import (
	"archive/zip"
	"bytes"
	"compress/flate"
	"fmt"
	"hash/crc32"
	"io"
	"io/fs"
	"os"
	"path/filepath"
	"sort"
	"strings"
	"sync/atomic"
	"time"

	"cuelang.org/go/mod/module"
	"cuelang.org/go/mod/modzip"
	"cuelang.org/go/verifharness/kit"
	"cuelang.org/go/verifharness/tlaval"
)

func init() { register("C15", "model_checking", checkC15) }

type mzEntry struct {
	path, typ, size, why string
	data                 []byte
}

type mzFile struct {
	e *mzEntry
}
type mzInfo struct{ e *mzEntry }

func (i mzInfo) Name() string { return filepath.Base(i.e.path) }
func (i mzInfo) Size() int64  { return int64(len(i.e.data)) }
func (i mzInfo) Mode() fs.FileMode {
	if i.e.typ == "symlink" {
		return fs.ModeSymlink | 0o777
	}
	return 0o644
}
func (i mzInfo) ModTime() time.Time { return time.Time{} }
func (i mzInfo) IsDir() bool        { return false }
func (i mzInfo) Sys() any           { return nil }

type mzIO struct{}

func (mzIO) Path(f mzFile) string                { return f.e.path }
func (mzIO) Lstat(f mzFile) (os.FileInfo, error) { return mzInfo{f.e}, nil }
func (mzIO) Open(f mzFile) (io.ReadCloser, error) {
	return io.NopCloser(bytes.NewReader(f.e.data)), nil
}

var mzVersion = module.MustNewVersion("example.com/m@v0", "v0.1.0")

func mzLoadEntries(r *kit.Run) []*mzEntry {
	res, err := kit.RunTLC(kit.TLCOpts{Module: "ModZip", CfgText: "INIT TablesInit\nNEXT Next\nCONSTANTS MaxEntries = 0 Big = TRUE\n", Dump: true, Workers: 1, Timeout: 5 * time.Minute})
	defer res.Cleanup()
	if err != nil || !res.OK() {
		r.Fatal("ModZip tables: %v\n%s", err, res.Tail(30))
	}
	var out []*mzEntry
	kit.ForEachState(res.DumpPath, nil, 1, func(_ int, st tlaval.State) {
		rec := tlaval.AsRec(st["arch"])
		paths, types, sizes, why := tlaval.AsSeq(rec["paths"]), tlaval.AsSeq(rec["types"]), tlaval.AsSeq(rec["sizes"]), tlaval.AsSeq(rec["why"])
		for i := range paths {
			e := &mzEntry{path: tlaval.AsStr(paths[i]), typ: tlaval.AsStr(types[i]), size: tlaval.AsStr(sizes[i]), why: tlaval.AsStr(why[i])}
			if e.path == "BADUTF8.cue" {
				e.path = "\xffbad.cue"
			}
			switch {
			case strings.HasSuffix(e.path, "module.cue") && e.size == "small":
				e.data = []byte(fmt.Sprintf("module: \"example.com/m@v0\"\nlanguage: version: \"v0.9.0\"\n// entry %d\n", i))
			case e.size == "over":
				e.data = bytes.Repeat([]byte("x"), 16<<20+1)
			default:
				e.data = []byte(fmt.Sprintf("// entry %d %s\npackage p%d\n%s", i, e.why, i, strings.Repeat("v: 1\n", i+1)))
			}
			out = append(out, e)
		}
	})
	return out
}

func mzSet(fes []modzip.FileError) map[string]bool {
	m := map[string]bool{}
	for _, fe := range fes {
		m[fe.Path] = true
	}
	return m
}

// rawZip writes a zip with the given names; hostile may alter headers.
func rawZip(entries []*mzEntry, hostile string) []byte {
	var buf bytes.Buffer
	zw := zip.NewWriter(&buf)
	for k, e := range entries {
		hdr := &zip.FileHeader{Name: e.path, Method: zip.Deflate}
		if e.typ == "symlink" {
			hdr.SetMode(fs.ModeSymlink | 0o777)
		} else if hostile == "dir-mode-on-file" && k == len(entries)-1 {
			hdr.SetMode(fs.ModeDir | 0o755) // a named file that carries data and the directory mode bits
		} else {
			hdr.SetMode(0o644)
		}
		if (hostile == "declared-smaller" || hostile == "declared-larger") && k == len(entries)-1 {
			// write the last entry raw with a lying declared size
			var cbuf bytes.Buffer
			fw, _ := flate.NewWriter(&cbuf, flate.DefaultCompression)
			fw.Write(e.data)
			fw.Close()
			hdr.CRC32 = crc32.ChecksumIEEE(e.data)
			hdr.CompressedSize64 = uint64(cbuf.Len())
			switch hostile {
			case "declared-smaller":
				hdr.UncompressedSize64 = uint64(len(e.data) / 2)
			case "declared-larger":
				hdr.UncompressedSize64 = uint64(len(e.data) * 2)
			}
			w, err := zw.CreateRaw(hdr)
			if err == nil {
				w.Write(cbuf.Bytes())
			}
			continue
		}
		w, err := zw.CreateHeader(hdr)
		if err != nil {
			continue
		}
		w.Write(e.data)
	}
	if hostile == "dir-entry" {
		zw.CreateHeader(&zip.FileHeader{Name: "emptydir/"})
	}
	if hostile == "duplicate" && len(entries) > 0 {
		w, _ := zw.CreateHeader(&zip.FileHeader{Name: entries[len(entries)-1].path, Method: zip.Deflate})
		if w != nil {
			w.Write([]byte("second copy"))
		}
	}
	zw.Close()
	return buf.Bytes()
}

// unzipSafely runs modzip.Unzip on zipBytes in a scratch directory and
// checks, independently of the model, that nothing is written outside the
// target and no file exceeds its declared size.
func unzipSafely(zipBytes []byte, declared map[string]uint64) (extracted map[string][]byte, unzipErr error, problem string) {
	root, err := os.MkdirTemp("", "vh-mz-")
	if err != nil {
		return nil, err, "tool: " + err.Error()
	}
	defer os.RemoveAll(root)
	zf := filepath.Join(root, "in.zip")
	os.WriteFile(zf, zipBytes, 0o644)
	scratch := filepath.Join(root, "scratch")
	target := filepath.Join(scratch, "deep", "target")
	os.MkdirAll(filepath.Dir(target), 0o755)
	os.WriteFile(filepath.Join(scratch, "sentinel"), []byte("s"), 0o644)
	unzipErr = modzip.Unzip(target, mzVersion, zf)
	extracted = map[string][]byte{}
	filepath.WalkDir(root, func(p string, d fs.DirEntry, err error) error {
		if err != nil || p == root {
			return nil
		}
		rel, _ := filepath.Rel(root, p)
		if rel == "in.zip" || rel == "scratch" || rel == filepath.Join("scratch", "sentinel") || rel == filepath.Join("scratch", "deep") {
			return nil
		}
		trel, terr := filepath.Rel(target, p)
		if terr != nil || strings.HasPrefix(trel, "..") {
			problem = "extraction wrote outside the target directory: " + rel
			return nil
		}
		if d.IsDir() {
			return nil
		}
		info, _ := d.Info()
		if info == nil || !info.Mode().IsRegular() {
			problem = "extraction created a non-regular file: " + rel
			return nil
		}
		b, _ := os.ReadFile(p)
		name := filepath.ToSlash(trel)
		extracted[name] = b
		if max, ok := declared[name]; ok && uint64(len(b)) > max && unzipErr == nil {
			problem = fmt.Sprintf("file %s has %d bytes, more than the declared %d", name, len(b), max)
		}
		return nil
	})
	if b, err := os.ReadFile(filepath.Join(scratch, "sentinel")); err != nil || string(b) != "s" {
		problem = "extraction modified a file outside the target directory"
	}
	return extracted, unzipErr, problem
}

func checkC15(r *kit.Run) {
	r.Assumptions = []string{
		"entries: the 27-entry alphabet of ModZip.tla (one path per rule of the package documentation / CheckFilePath); archives = subsets of <= MaxEntries entries; oversize entries (16 MiB + 1) only in the thorough tier",
		"CheckDir is exercised only for archives whose paths can exist in a Linux directory",
		"for a pair of colliding names the model only says that at least one of the two is rejected",
	}
	entries := mzLoadEntries(r)
	big := r.Thorough()
	cfg := fmt.Sprintf("INIT Init\nNEXT Next\nCONSTANTS MaxEntries = %d Big = %v\nINVARIANTS CreatedZipOK CheckersAgree\n", kit.Pick(r, 3, 4), strings.ToUpper(fmt.Sprint(big)))
	res, err := kit.RunTLC(kit.TLCOpts{Module: "ModZip", CfgText: cfg, Dump: true, Timeout: 30 * time.Minute, Heap: "16g"})
	defer res.Cleanup()
	if err != nil || res.TimedOut || !res.OK() {
		r.Fatal("ModZip model failed (design level): %v %s\n%s", err, res.Violation, res.Tail(40))
	}
	r.AddTLC("ModZip archives", res)
	var checked, roundtrips, dirChecks, hostileRuns, nontrivial, canary, caught int64
	n, err := kit.ForEachState(res.DumpPath, nil, 16, func(w int, st tlaval.State) {
		idx := tlaval.IntSet(st["arch"])
		if len(idx) == 0 {
			return
		}
		hasOver := false
		var es []*mzEntry
		for _, i := range idx {
			es = append(es, entries[i-1])
			if entries[i-1].size == "over" {
				hasOver = true
			}
		}
		sort.Slice(es, func(i, j int) bool { return es[i].path < es[j].path })
		filesV := tlaval.AsMap(st["files"])
		zipV := tlaval.AsMap(st["zipv"])
		okFiles, okZip := tlaval.AsBool(st["okFiles"]), tlaval.AsBool(st["okZip"])
		var names []string
		for _, e := range es {
			names = append(names, e.why)
		}
		key := strings.Join(names, "+")
		verdictOf := func(m map[string]tlaval.Value, e *mzEntry) string {
			for _, i := range idx {
				if entries[i-1] == e {
					return tlaval.AsStr(m[fmt.Sprint(i)])
				}
			}
			return "?"
		}
		// 1. as a file list
		var files []mzFile
		for _, e := range es {
			files = append(files, mzFile{e})
		}
		cf, cerr := modzip.CheckFiles(files, mzIO{})
		valid := map[string]bool{}
		for _, p := range cf.Valid {
			valid[p] = true
		}
		omitted, invalid := mzSet(cf.Omitted), mzSet(cf.Invalid)
		compare := func(via string, e *mzEntry, want string, valid, omitted, invalid map[string]bool) {
			got := "none"
			switch {
			case valid[e.path]:
				got = "valid"
			case omitted[e.path]:
				got = "omitted"
			case invalid[e.path]:
				got = "invalid"
			}
			ok := got == want
			if want == "collides" || want == "any" {
				ok = true // checked at archive level below
			}
			if !ok {
				r.Violation(fmt.Sprintf("%s classify %s in %s", via, e.why, key), fmt.Sprintf("checking as %s: %q is %s, the package rules say %s", via, e.path, got, want), map[string]any{"archive": names, "path": e.path, "via": via})
			}
		}
		for _, e := range es {
			compare("file list", e, verdictOf(filesV, e), valid, omitted, invalid)
		}
		if (cerr == nil) != okFiles {
			r.Violation("file list verdict "+key, fmt.Sprintf("CheckFiles error=%v, the package rules say acceptable=%v", cerr, okFiles), map[string]any{"archive": names})
		}
		atomic.AddInt64(&checked, 1)
		if okFiles && len(es) > 1 {
			atomic.AddInt64(&nontrivial, 1)
		}
		if atomic.LoadInt64(&checked)%37 == 1 {
			atomic.AddInt64(&canary, 1)
			if (cerr == nil) != !okFiles {
				atomic.AddInt64(&caught, 1)
			}
		}
		// 2. as a directory, when representable
		representable := true
		for _, e := range es {
			switch e.why {
			case "dotdot-inner", "dotdot-leading", "dot-element", "absolute":
				representable = false
			case "file-and-directory":
				for _, f := range es {
					if f.why == "ordinary-nested" {
						representable = false
					}
				}
			}
		}
		if representable && !hasOver {
			dir, _ := os.MkdirTemp("", "vh-mzd-")
			for _, e := range es {
				p := filepath.Join(dir, filepath.FromSlash(e.path))
				os.MkdirAll(filepath.Dir(p), 0o755)
				if e.typ == "symlink" {
					os.Symlink("a.cue", p)
				} else {
					os.WriteFile(p, e.data, 0o644)
				}
			}
			dcf, derr := modzip.CheckDir(dir)
			os.RemoveAll(dir)
			// CheckDir reports paths below dir; make them relative again
			strip := func(p string) string {
				rel, err := filepath.Rel(dir, p)
				if err != nil {
					return p
				}
				return filepath.ToSlash(rel)
			}
			dvalid := map[string]bool{}
			for _, p := range dcf.Valid {
				dvalid[strip(p)] = true
			}
			for i := range dcf.Invalid {
				dcf.Invalid[i].Path = strip(dcf.Invalid[i].Path)
			}
			if fmt.Sprint(sortedKeys(dvalid)) != fmt.Sprint(sortedKeys(valid)) || fmt.Sprint(sortedKeys(mzSet(dcf.Invalid))) != fmt.Sprint(sortedKeys(invalid)) || (derr == nil) != (cerr == nil) {
				r.Violation("dir vs list "+key, fmt.Sprintf("CheckDir and CheckFiles disagree: valid %v vs %v, invalid %v vs %v, err %v vs %v", sortedKeys(dvalid), sortedKeys(valid), sortedKeys(mzSet(dcf.Invalid)), sortedKeys(invalid), derr, cerr), map[string]any{"archive": names})
			}
			atomic.AddInt64(&dirChecks, 1)
		}
		// 3. create -> check -> unzip round trip
		if cerr == nil {
			var zb bytes.Buffer
			if err := modzip.Create(&zb, mzVersion, files, mzIO{}); err != nil {
				r.Violation("create "+key, "Create fails on a file set CheckFiles accepts: "+err.Error(), map[string]any{"archive": names})
			} else {
				_, _, zcf, zerr := modzip.CheckZip(mzVersion, bytes.NewReader(zb.Bytes()), int64(zb.Len()))
				if zerr != nil || zcf.Err() != nil {
					r.Violation("created zip rejected "+key, fmt.Sprintf("a zip produced by Create does not pass CheckZip: %v %v", zerr, zcf.Err()), map[string]any{"archive": names})
				}
				if !hasOver {
					ex, uerr, problem := unzipSafely(zb.Bytes(), nil)
					if uerr != nil {
						r.Violation("unzip created "+key, "Unzip fails on a zip produced by Create: "+uerr.Error(), map[string]any{"archive": names})
					} else if problem != "" {
						r.Violation("unzip unsafe "+key, problem, map[string]any{"archive": names})
					} else {
						want := map[string][]byte{}
						for _, e := range es {
							if valid[e.path] {
								want[e.path] = e.data
							}
						}
						same := len(ex) == len(want)
						for p, b := range want {
							if !bytes.Equal(ex[p], b) {
								same = false
							}
						}
						if !same {
							r.Violation("round trip "+key, fmt.Sprintf("create+unzip does not reproduce the valid files: got %v want %v", sortedKeys2(ex), sortedKeys2(want)), map[string]any{"archive": names})
						}
						atomic.AddInt64(&roundtrips, 1)
					}
				}
			}
		}
		// 4. as a zip written raw, including hostile headers
		if !hasOver {
			zbytes := rawZip(es, "")
			_, _, zcf, zerr := modzip.CheckZip(mzVersion, bytes.NewReader(zbytes), int64(len(zbytes)))
			zvalid := map[string]bool{}
			for _, p := range zcf.Valid {
				zvalid[p] = true
			}
			for _, e := range es {
				compare("zip", e, verdictOf(zipV, e), zvalid, mzSet(zcf.Omitted), mzSet(zcf.Invalid))
			}
			zok := zerr == nil && zcf.Err() == nil
			anyVerdict := false
			for _, e := range es {
				if verdictOf(zipV, e) == "any" {
					anyVerdict = true
				}
			}
			if zok != okZip && !(anyVerdict && !zok) {
				r.Violation("zip verdict "+key, fmt.Sprintf("CheckZip acceptable=%v (%v %v), the package rules say %v", zok, zerr, zcf.Err(), okZip), map[string]any{"archive": names})
			}
			for _, hostile := range []string{"", "declared-smaller", "declared-larger", "dir-entry", "duplicate", "dir-mode-on-file"} {
				hb := rawZip(es, hostile)
				declared := map[string]uint64{}
				if zr, err := zip.NewReader(bytes.NewReader(hb), int64(len(hb))); err == nil {
					for _, f := range zr.File {
						if old, ok := declared[f.Name]; !ok || f.UncompressedSize64 > old {
							declared[f.Name] = f.UncompressedSize64
						}
					}
				}
				ex, uerr, problem := unzipSafely(hb, declared)
				atomic.AddInt64(&hostileRuns, 1)
				if problem != "" {
					r.Violation("unzip unsafe "+key+" "+hostile, problem, map[string]any{"archive": names, "hostile": hostile})
				}
				if uerr == nil {
					// whatever is extracted must be a file the zip check lists as valid
					_, _, hcf, herr := modzip.CheckZip(mzVersion, bytes.NewReader(hb), int64(len(hb)))
					hvalid := map[string]bool{}
					for _, p := range hcf.Valid {
						hvalid[p] = true
					}
					var extra []string
					for p := range ex {
						if !hvalid[p] {
							extra = append(extra, p)
						}
					}
					sort.Strings(extra)
					if herr != nil || hcf.Err() != nil || len(extra) > 0 {
						r.Violation("unzip beyond check "+key+" "+hostile, fmt.Sprintf("Unzip succeeds and writes %v, which CheckZip of the same bytes does not list as valid (check error: %v %v)", extra, herr, hcf.Err()), map[string]any{"archive": names, "hostile": hostile})
					}
				}
				if uerr == nil && hostile == "" && !okZip && !anyVerdict {
					r.Violation("unzip accepts "+key, "Unzip extracts an archive the checks reject", map[string]any{"archive": names, "extracted": sortedKeys2(ex)})
				}
				if uerr == nil && (hostile == "declared-smaller" || hostile == "declared-larger") {
					r.Violation("unzip size "+key+" "+hostile, "Unzip accepts an entry whose uncompressed size differs from its declared size", map[string]any{"archive": names, "hostile": hostile})
				}
			}
		}
		if checked%500 == 3 {
			r.Sample(map[string]any{"archive": names, "spec_ok_as_files": okFiles, "spec_ok_as_zip": okZip})
		}
	})
	if err != nil {
		r.Fatal("ModZip dump: %v", err)
	}
	if (canary == 0 && r.Violations() == 0) || caught != canary {
		r.Fatal("canary: %d of %d flipped verdicts noticed", caught, canary)
	}
	r.Set("traces_validated_against_impl", n)
	r.Set("evaluations", int(checked))
	r.Set("round_trips", int(roundtrips))
	r.Set("dir_checks", int(dirChecks))
	r.Set("unzip_runs_incl_hostile", int(hostileRuns))
	r.Set("distinct_nontrivial", int(nontrivial))
	r.Set("canaries_rejected", int(caught))
	r.Set("exhaustive", true)
	r.Set("rule", "every subset of <= MaxEntries entries (TLC initial states of ModZip.tla with per-entry verdicts for file-list and zip checking); each is checked as a file list, as a directory (when representable), created+checked+unzipped (round trip) and, written raw with and without hostile headers (declared size smaller/larger, directory entry, duplicate name, directory mode bits on a file entry), checked and unzipped in a scratch directory that is walked afterwards; non-trivial = acceptable archives with more than one entry")
}

func sortedKeys(m map[string]bool) []string {
	var out []string
	for k := range m {
		out = append(out, k)
	}
	sort.Strings(out)
	return out
}
func sortedKeys2(m map[string][]byte) []string {
	var out []string
	for k := range m {
		out = append(out, k)
	}
	sort.Strings(out)
	return out
}

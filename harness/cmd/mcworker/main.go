// Command mcworker is the child process of the C16 check.
package main

import (
	"os"

	"cuelang.org/go/verifharness/mcw"
)

func main() { mcw.Main(os.Args[1:]) }

package main

import (
	"fmt"
	"os"
	"path/filepath"
	"sort"
	"strings"
	"sync"
	"sync/atomic"
	"time"

	"cuelang.org/go/cue"
	"cuelang.org/go/cue/ast"
	"cuelang.org/go/cue/build"
	"cuelang.org/go/cue/cuecontext"
	"cuelang.org/go/cue/format"
	"cuelang.org/go/cue/parser"
	"cuelang.org/go/verifharness/kit"
	"cuelang.org/go/verifharness/tlaval"
)

func init() { register("C07", "exploration", checkC07) }

var c07Labels = []string{"a", "b", "c", "d", "e"}

func c07Build(srcs []string) (cue.Value, error) {
	ctx := cuecontext.New()
	bi := build.NewContext().NewInstance("", nil)
	for i, src := range srcs {
		f, err := parser.ParseFile(fmt.Sprintf("f%d.cue", i), src, parser.ParseComments)
		if err != nil {
			return cue.Value{}, err
		}
		if err := bi.AddSyntax(f); err != nil {
			return cue.Value{}, err
		}
	}
	v := ctx.BuildInstance(bi)
	return v, nil
}

// dataOf gives, per label, the canonical JSON of the field when it is
// concrete (defaults resolved), else "".
func dataOf(v cue.Value, labels []string) map[string]string {
	out := map[string]string{}
	for _, l := range labels {
		f := v.LookupPath(cue.ParsePath(l))
		if !f.Exists() {
			continue
		}
		if f.Validate(cue.Concrete(true), cue.Final()) != nil {
			out[l] = ""
			continue
		}
		b, err := f.MarshalJSON()
		if err != nil {
			out[l] = ""
			continue
		}
		out[l] = canonJSON(b)
	}
	return out
}

func checkC07(r *kit.Run) {
	r.Assumptions = []string{
		"programs: the seed packages of CueRewrite.tla (fields a b c over the conjunct pool) plus one of 14 extra declarations (imports, comprehension, let, definitions, hidden field, defaulted disjunction, integer and float ranges the printer may simplify); packages in which a field is in error are skipped (nothing is promised for them)",
		"profiles: Value.Syntax(cue.All) and Value.Syntax(cue.Final) + formatter; `cue eval` and `cue export --out cue` through the binary built from the working tree (a sample in quick, all in thorough)",
		"equivalence is the projection of C01 (error class, kind, scalar, fields and kinds, closedness, default, concreteness, in-language probes); for final/export only the data of concrete fields",
	}
	// tables
	tres, err := kit.RunTLC(kit.TLCOpts{Module: "CuePrint", CfgText: "INIT PTablesInit\nNEXT PNext\nCONSTANTS MaxSteps = 0 Sample = 0 MaxConj = 0\n", Dump: true, Workers: 1, Timeout: 5 * time.Minute})
	if err != nil || !tres.OK() {
		r.Fatal("CuePrint tables: %v\n%s", err, tres.Tail(30))
	}
	var pool, extras []string
	kit.ForEachState(tres.DumpPath, nil, 1, func(_ int, st tlaval.State) {
		for _, x := range tlaval.AsSeq(tlaval.AsRec(st["seed"])["pool"]) {
			pool = append(pool, tlaval.AsStr(x))
		}
		for _, x := range tlaval.AsSeq(tlaval.AsRec(st["profile"])["extras"]) {
			extras = append(extras, tlaval.AsStr(x))
		}
	})
	tres.Cleanup()
	res, err := kit.RunTLC(kit.TLCOpts{Module: "CuePrint", CfgText: fmt.Sprintf("INIT PInit\nNEXT PNext\nCONSTANTS MaxSteps = 0 Sample = %d MaxConj = 8\n", kit.Pick(r, 120, 600)), Dump: true, Seed: r.Seed + 13, Timeout: 30 * time.Minute, Heap: "16g"})
	defer res.Cleanup()
	if err != nil || res.TimedOut || !res.OK() {
		r.Fatal("CuePrint model: %v\n%s", err, res.Tail(30))
	}
	r.AddTLC("CuePrint programs", res)
	cueBinary = filepath.Join(kit.VerifDir(), ".build", "cue")
	if _, err := os.Stat(cueBinary); err != nil {
		r.Fatal("cue binary missing (bin/check builds it for C07)")
	}
	var states []tlaval.State
	var mu sync.Mutex
	kit.ForEachState(res.DumpPath, nil, 4, func(_ int, st tlaval.State) {
		mu.Lock()
		states = append(states, st)
		mu.Unlock()
	})
	sort.Slice(states, func(i, j int) bool { return fmt.Sprint(states[i]) < fmt.Sprint(states[j]) })
	var printed, skippedErr, compared, cliRuns, canary, caught int64
	kit.ParallelN(len(states), 12, func(w, i int) {
		st := states[i]
		s := c01Parse(st)
		profile := tlaval.AsStr(st["profile"])
		ex := extras[tlaval.AsInt(st["extra"])-1]
		if (profile == "eval" || profile == "export") && !r.Thorough() && i%5 != 0 {
			return
		}
		srcs := append([]string{"package p\n#D: {x: int}\n#M: {T: _, out: [string]: T}\n"}, s.render(pool)...)
		if ex != "" {
			// imports must precede other declarations in their file
			srcs = append(srcs, "package p\n"+ex+"\n")
		}
		key := fmt.Sprintf("%s | %s | %s", profile, s.describe(pool), strings.ReplaceAll(ex, "\n", "; "))
		orig, err := pkgEval(srcs, c07Labels)
		if err != nil {
			atomic.AddInt64(&skippedErr, 1)
			return
		}
		hasErr := false
		for _, l := range c07Labels {
			if strings.Contains(orig[l], "ERROR") {
				hasErr = true
			}
		}
		if hasErr && profile != "all" {
			// the command line refuses packages with errors, and Final promises nothing for them
			atomic.AddInt64(&skippedErr, 1)
			return
		}
		v, err := c07Build(srcs)
		if err != nil {
			atomic.AddInt64(&skippedErr, 1)
			return
		}
		var text string
		switch profile {
		case "all", "final":
			opts := []cue.Option{cue.All(), cue.Docs(true)}
			if profile == "final" {
				opts = []cue.Option{cue.Final()}
			}
			node := v.Syntax(opts...)
			if sl, ok := node.(*ast.StructLit); ok {
				// a package value printed as a struct literal: its members are the file's declarations
				node = &ast.File{Decls: sl.Elts}
			}
			b, err := format.Node(node)
			if err != nil {
				r.Violation("print "+key, "the printed syntax does not format: "+err.Error(), map[string]any{"files": srcs})
				return
			}
			text = string(b)
		case "eval", "export":
			dir, _ := os.MkdirTemp("", "vh-print-")
			defer os.RemoveAll(dir)
			os.MkdirAll(filepath.Join(dir, "cue.mod"), 0o755)
			os.WriteFile(filepath.Join(dir, "cue.mod", "module.cue"), []byte("module: \"example.com/p@v0\"\nlanguage: version: \"v0.9.0\"\n"), 0o644)
			for k, src := range srcs {
				os.WriteFile(filepath.Join(dir, fmt.Sprintf("f%d.cue", k)), []byte(src), 0o644)
			}
			args := []string{"eval", "."}
			if profile == "export" {
				args = []string{"export", ".", "--out", "cue"}
			}
			so, se, code := runCue(dir, args...)
			atomic.AddInt64(&cliRuns, 1)
			concreteAll := true
			for _, d := range dataOf(v, c07Labels) {
				if d == "" {
					concreteAll = false
				}
			}
			if profile == "export" {
				if (code == 0) != concreteAll {
					r.Violation("export status "+key, fmt.Sprintf("cue export exits %d although every regular field concrete=%v: %s", code, concreteAll, se), map[string]any{"files": srcs})
					return
				}
				if code != 0 {
					return
				}
			} else if code != 0 {
				r.Violation("eval status "+key, fmt.Sprintf("cue eval fails on a package without errors: %s", se), map[string]any{"files": srcs})
				return
			}
			text = string(so)
		}
		atomic.AddInt64(&printed, 1)
		if !strings.HasPrefix(strings.TrimSpace(text), "package") && !strings.HasPrefix(strings.TrimSpace(text), "import") {
			text = "package p\n" + text
		} else if strings.HasPrefix(strings.TrimSpace(text), "import") {
			text = "package p\n" + text
		}
		back, err := pkgEval([]string{text}, c07Labels)
		if err != nil {
			r.Violation("reparse "+key, "the printed text does not compile on its own: "+err.Error(), map[string]any{"files": srcs, "printed": text})
			return
		}
		atomic.AddInt64(&compared, 1)
		switch profile {
		case "all":
			for _, l := range c07Labels {
				// a field that is an error prints as _|_; what kind of bottom the reprinted text
				// evaluates to (error or incomplete) is not something printing can keep
				if strings.HasPrefix(orig[l], "ERROR") && (strings.HasPrefix(back[l], "ERROR") || strings.HasPrefix(back[l], "incomplete|k=_|_")) {
					continue
				}
				if orig[l] != back[l] {
					r.Violation("reprint "+key, fmt.Sprintf("field %s of the printed text evaluates to something else:\n  original:  %s\n  reprinted: %s", l, orig[l], back[l]), map[string]any{"files": srcs, "printed": text, "field": l})
					return
				}
			}
		case "final", "export", "eval":
			want := dataOf(v, c07Labels)
			bv, berr := c07Build([]string{text})
			if berr != nil {
				r.Violation("reparse "+key, "the printed text does not build: "+berr.Error(), map[string]any{"files": srcs, "printed": text})
				return
			}
			got := dataOf(bv, c07Labels)
			for _, l := range c07Labels {
				if want[l] != "" && got[l] != want[l] {
					r.Violation("reprint data "+key, fmt.Sprintf("field %s: data %s was printed as text that evaluates to %q", l, want[l], got[l]), map[string]any{"files": srcs, "printed": text, "field": l})
					return
				}
			}
		}
		if atomic.LoadInt64(&compared)%40 == 1 {
			r.Sample(map[string]any{"profile": profile, "files": srcs, "printed": text})
			atomic.AddInt64(&canary, 1)
			alt, err := pkgEval([]string{text + "\na: 7\nb: \"q\"\nc: {x: 9}\nd: 5\n"}, c07Labels)
			if err != nil || alt["a"] != orig["a"] || alt["b"] != orig["b"] || alt["c"] != orig["c"] || alt["d"] != orig["d"] {
				atomic.AddInt64(&caught, 1)
			}
		}
	})
	if (canary == 0 && r.Violations() == 0) || caught != canary {
		r.Fatal("canary: %d of %d altered texts noticed", caught, canary)
	}
	r.Set("evaluations", int(printed))
	r.Set("reparsed_and_compared", int(compared))
	r.Set("packages_skipped_in_error", int(skippedErr))
	r.Set("cli_runs", int(cliRuns))
	r.Set("distinct_nontrivial", int(compared))
	r.Set("canaries_rejected", int(caught))
	r.Set("rule", "states of CuePrint.tla: (seed package, extra declaration, profile); the package is evaluated, printed with the profile, the text evaluated on its own and compared with the original according to what the profile promises; distinct_nontrivial = printed texts that were re-evaluated and compared")
}

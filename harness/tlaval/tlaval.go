// Package tlaval parses TLA+ values as TLC prints them (state dumps,
// simulation files, error traces) into Go values.
package tlaval

import (
	"bufio"
	"fmt"
	"io"
	"sort"
	"strconv"
	"strings"
)

// Value is one of: Int, Bool, Str, Model, Seq, Set, Rec, Fun.
type Value interface{ String() string }

type Int int64
type Bool bool
type Str string
type Model string // model value / bare identifier
type Seq []Value
type Set []Value
type Rec map[string]Value
type Pair struct{ K, V Value }
type Fun []Pair

func (v Int) String() string   { return strconv.FormatInt(int64(v), 10) }
func (v Bool) String() string  { return map[bool]string{true: "TRUE", false: "FALSE"}[bool(v)] }
func (v Str) String() string   { return strconv.Quote(string(v)) }
func (v Model) String() string { return string(v) }
func (v Seq) String() string   { return "<<" + join([]Value(v)) + ">>" }
func (v Set) String() string   { return "{" + join([]Value(v)) + "}" }
func (v Rec) String() string {
	ks := make([]string, 0, len(v))
	for k := range v {
		ks = append(ks, k)
	}
	sort.Strings(ks)
	var b strings.Builder
	b.WriteString("[")
	for i, k := range ks {
		if i > 0 {
			b.WriteString(", ")
		}
		b.WriteString(k + " |-> " + v[k].String())
	}
	b.WriteString("]")
	return b.String()
}
func (v Fun) String() string {
	var b strings.Builder
	b.WriteString("(")
	for i, p := range v {
		if i > 0 {
			b.WriteString(" @@ ")
		}
		b.WriteString(p.K.String() + " :> " + p.V.String())
	}
	b.WriteString(")")
	return b.String()
}

func join(vs []Value) string {
	ss := make([]string, len(vs))
	for i, v := range vs {
		ss[i] = v.String()
	}
	return strings.Join(ss, ", ")
}

// Accessors that panic with a useful message; harness code uses them on
// specs it owns, so a mismatch is a programming error.

func AsInt(v Value) int {
	i, ok := v.(Int)
	if !ok {
		panic(fmt.Sprintf("tlaval: want Int, got %T %v", v, v))
	}
	return int(i)
}
func AsBool(v Value) bool {
	b, ok := v.(Bool)
	if !ok {
		panic(fmt.Sprintf("tlaval: want Bool, got %T %v", v, v))
	}
	return bool(b)
}
func AsStr(v Value) string {
	switch s := v.(type) {
	case Str:
		return string(s)
	case Model:
		return string(s)
	}
	panic(fmt.Sprintf("tlaval: want Str, got %T %v", v, v))
}

// AsSeq accepts sequences, empty functions and functions with domain 1..n.
func AsSeq(v Value) []Value {
	switch s := v.(type) {
	case Seq:
		return []Value(s)
	case Fun:
		out := make([]Value, len(s))
		for _, p := range s {
			i := AsInt(p.K)
			out[i-1] = p.V
		}
		return out
	case Set:
		if len(s) == 0 {
			return nil
		}
	}
	panic(fmt.Sprintf("tlaval: want Seq, got %T %v", v, v))
}
func AsSet(v Value) []Value {
	switch s := v.(type) {
	case Set:
		return []Value(s)
	case Seq:
		if len(s) == 0 {
			return nil
		}
	}
	panic(fmt.Sprintf("tlaval: want Set, got %T %v", v, v))
}
func AsRec(v Value) Rec {
	switch r := v.(type) {
	case Rec:
		return r
	case Fun:
		out := Rec{}
		for _, p := range r {
			out[AsStr(p.K)] = p.V
		}
		return out
	}
	panic(fmt.Sprintf("tlaval: want Rec, got %T %v", v, v))
}

// AsMap turns a function (or record, or sequence) into key-string -> value.
func AsMap(v Value) map[string]Value {
	out := map[string]Value{}
	switch f := v.(type) {
	case Fun:
		for _, p := range f {
			out[keyString(p.K)] = p.V
		}
	case Rec:
		for k, x := range f {
			out[k] = x
		}
	case Seq:
		for i, x := range f {
			out[strconv.Itoa(i+1)] = x
		}
	case Set:
		if len(f) != 0 {
			panic("tlaval: AsMap on non-empty set")
		}
	default:
		panic(fmt.Sprintf("tlaval: want Fun, got %T %v", v, v))
	}
	return out
}

func keyString(v Value) string {
	switch k := v.(type) {
	case Str:
		return string(k)
	case Model:
		return string(k)
	}
	return v.String()
}

func StrSet(v Value) []string {
	var out []string
	for _, x := range AsSet(v) {
		out = append(out, AsStr(x))
	}
	sort.Strings(out)
	return out
}
func IntSet(v Value) []int {
	var out []int
	for _, x := range AsSet(v) {
		out = append(out, AsInt(x))
	}
	sort.Ints(out)
	return out
}
func IntSeq(v Value) []int {
	var out []int
	for _, x := range AsSeq(v) {
		out = append(out, AsInt(x))
	}
	return out
}

// ---- parser ----

type parser struct {
	s   string
	pos int
}

// Parse parses one TLA+ value.
func Parse(s string) (v Value, err error) {
	p := &parser{s: s}
	defer func() {
		if r := recover(); r != nil {
			err = fmt.Errorf("tlaval: %v at %d in %.80q", r, p.pos, s)
		}
	}()
	v = p.value()
	p.ws()
	if p.pos != len(p.s) {
		panic("trailing input")
	}
	return v, nil
}

func (p *parser) ws() {
	for p.pos < len(p.s) {
		switch p.s[p.pos] {
		case ' ', '\n', '\t', '\r':
			p.pos++
		default:
			return
		}
	}
}

func (p *parser) has(tok string) bool {
	p.ws()
	return strings.HasPrefix(p.s[p.pos:], tok)
}

func (p *parser) eat(tok string) bool {
	if p.has(tok) {
		p.pos += len(tok)
		return true
	}
	return false
}

func (p *parser) must(tok string) {
	if !p.eat(tok) {
		panic("expected " + tok)
	}
}

func (p *parser) value() Value {
	v := p.atom()
	// interval a..b
	if p.has("..") {
		p.must("..")
		hi := p.atom()
		lo := AsInt(v)
		var out Set
		for i := lo; i <= AsInt(hi); i++ {
			out = append(out, Int(i))
		}
		return out
	}
	return v
}

func (p *parser) atom() Value {
	p.ws()
	if p.pos >= len(p.s) {
		panic("unexpected end")
	}
	switch {
	case p.eat("<<"):
		var out Seq
		if p.eat(">>") {
			return out
		}
		for {
			out = append(out, p.value())
			if p.eat(",") {
				continue
			}
			p.must(">>")
			return out
		}
	case p.eat("{"):
		var out Set
		if p.eat("}") {
			return out
		}
		for {
			out = append(out, p.value())
			if p.eat(",") {
				continue
			}
			p.must("}")
			return out
		}
	case p.eat("["):
		out := Rec{}
		for {
			p.ws()
			k := p.ident()
			p.must("|->")
			out[k] = p.value()
			if p.eat(",") {
				continue
			}
			p.must("]")
			return out
		}
	case p.eat("("):
		var out Fun
		for {
			k := p.value()
			p.must(":>")
			v := p.value()
			out = append(out, Pair{k, v})
			if p.eat("@@") {
				continue
			}
			p.must(")")
			return out
		}
	case p.s[p.pos] == '"':
		return Str(p.str())
	case p.s[p.pos] == '-' || (p.s[p.pos] >= '0' && p.s[p.pos] <= '9'):
		st := p.pos
		p.pos++
		for p.pos < len(p.s) && p.s[p.pos] >= '0' && p.s[p.pos] <= '9' {
			p.pos++
		}
		n, err := strconv.ParseInt(p.s[st:p.pos], 10, 64)
		if err != nil {
			panic(err)
		}
		return Int(n)
	}
	id := p.ident()
	switch id {
	case "TRUE":
		return Bool(true)
	case "FALSE":
		return Bool(false)
	}
	return Model(id)
}

func (p *parser) ident() string {
	st := p.pos
	for p.pos < len(p.s) {
		c := p.s[p.pos]
		if c == '_' || (c >= 'a' && c <= 'z') || (c >= 'A' && c <= 'Z') || (c >= '0' && c <= '9') {
			p.pos++
		} else {
			break
		}
	}
	if st == p.pos {
		panic("expected identifier")
	}
	return p.s[st:p.pos]
}

func (p *parser) str() string {
	p.pos++ // opening quote
	var b strings.Builder
	for p.pos < len(p.s) {
		c := p.s[p.pos]
		switch c {
		case '"':
			p.pos++
			return b.String()
		case '\\':
			p.pos++
			e := p.s[p.pos]
			switch e {
			case 'n':
				b.WriteByte('\n')
			case 't':
				b.WriteByte('\t')
			case 'r':
				b.WriteByte('\r')
			case 'f':
				b.WriteByte('\f')
			default:
				b.WriteByte(e)
			}
			p.pos++
		default:
			b.WriteByte(c)
			p.pos++
		}
	}
	panic("unterminated string")
}

// State is one dumped state: variable name -> value.
type State map[string]Value

// ReadDump reads a TLC -dump file and calls f for every state. Only the
// variables named in want are parsed (all if want is empty).
func ReadDump(r io.Reader, want []string, f func(State) error) error {
	wantSet := map[string]bool{}
	for _, w := range want {
		wantSet[w] = true
	}
	sc := bufio.NewScanner(r)
	sc.Buffer(make([]byte, 1<<20), 1<<28)
	var cur strings.Builder
	inState := false
	flush := func() error {
		if !inState {
			return nil
		}
		st, err := parseStateBody(cur.String(), wantSet)
		if err != nil {
			return err
		}
		cur.Reset()
		inState = false
		return f(st)
	}
	for sc.Scan() {
		line := sc.Text()
		if strings.HasPrefix(line, "State ") && strings.HasSuffix(strings.TrimSpace(line), ":") {
			if err := flush(); err != nil {
				return err
			}
			inState = true
			continue
		}
		if inState {
			cur.WriteString(line)
			cur.WriteByte('\n')
		}
	}
	if err := sc.Err(); err != nil {
		return err
	}
	return flush()
}

// parseStateBody parses "/\ v = val\n/\ w = val ..." (also the single
// variable form "v = val").
func parseStateBody(body string, want map[string]bool) (State, error) {
	st := State{}
	lines := strings.Split(body, "\n")
	var name string
	var val strings.Builder
	emit := func() error {
		if name == "" {
			return nil
		}
		if len(want) == 0 || want[name] {
			v, err := Parse(val.String())
			if err != nil {
				return fmt.Errorf("variable %s: %w", name, err)
			}
			st[name] = v
		}
		name = ""
		val.Reset()
		return nil
	}
	for _, ln := range lines {
		if strings.HasPrefix(ln, "/\\ ") {
			if err := emit(); err != nil {
				return nil, err
			}
			rest := ln[3:]
			i := strings.Index(rest, " = ")
			if i < 0 {
				// value starts on the next line
				i = strings.Index(rest, " =")
				if i < 0 {
					return nil, fmt.Errorf("bad state line %q", ln)
				}
				name = rest[:i]
				continue
			}
			name = rest[:i]
			val.WriteString(rest[i+3:])
			val.WriteByte('\n')
			continue
		}
		if name == "" && strings.Contains(ln, " = ") && len(st) == 0 && strings.TrimSpace(ln) != "" {
			i := strings.Index(ln, " = ")
			name = ln[:i]
			val.WriteString(ln[i+3:])
			val.WriteByte('\n')
			continue
		}
		if name != "" {
			val.WriteString(ln)
			val.WriteByte('\n')
		}
	}
	if err := emit(); err != nil {
		return nil, err
	}
	return st, nil
}

// ParseStateBody is exported for simulation-file and error-trace readers.
func ParseStateBody(body string) (State, error) { return parseStateBody(body, nil) }

// SimStep is one step of a TLC -simulate behaviour file.
type SimStep struct {
	Action string
	Args   []string
	State  State
}

// ReadSim parses a behaviour file written by `tlc -simulate file=...`.
// If statesToo is false only the action headers are parsed (fast).
func ReadSim(r io.Reader, statesToo bool) ([]SimStep, error) {
	sc := bufio.NewScanner(r)
	sc.Buffer(make([]byte, 1<<20), 1<<28)
	var steps []SimStep
	var body strings.Builder
	inState := false
	flush := func() error {
		if inState && statesToo && len(steps) > 0 {
			st, err := parseStateBody(body.String(), nil)
			if err != nil {
				return err
			}
			steps[len(steps)-1].State = st
		}
		body.Reset()
		inState = false
		return nil
	}
	for sc.Scan() {
		line := sc.Text()
		switch {
		case strings.HasPrefix(line, "\\* <"):
			if err := flush(); err != nil {
				return nil, err
			}
			h := strings.TrimPrefix(line, "\\* <")
			name := h
			if i := strings.Index(h, " line "); i >= 0 {
				name = h[:i]
			}
			var args []string
			if i := strings.IndexByte(name, '('); i >= 0 && strings.HasSuffix(name, ")") {
				for _, a := range strings.Split(name[i+1:len(name)-1], ",") {
					args = append(args, strings.TrimSpace(a))
				}
				name = name[:i]
			}
			steps = append(steps, SimStep{Action: name, Args: args})
		case strings.HasPrefix(line, "STATE_"):
			inState = true
		case strings.HasPrefix(line, "====="):
			if err := flush(); err != nil {
				return nil, err
			}
		default:
			if inState {
				body.WriteString(line)
				body.WriteByte('\n')
			}
		}
	}
	if err := flush(); err != nil {
		return nil, err
	}
	return steps, sc.Err()
}

------------------------------- MODULE Semver -------------------------------
(***************************************************************************)
(* Semantic Versioning 2.0.0 precedence (section 11) over structured       *)
(* versions: core triple, pre-release identifiers, build metadata.         *)
(* Every state is one version together with its rank in the precedence     *)
(* order of the universe; the harness renders versions as text and         *)
(* compares semver.Compare / module.Versions.Max / IsValid / Canonical of  *)
(* the real code with the ranks, for all pairs.                            *)
(***************************************************************************)
EXTENDS Integers, Sequences, FiniteSets, TLC

Id(num, n, s) == [num |-> num, n |-> n, s |-> s]

\* alphanumeric identifiers in ASCII order (verified against Go by the harness)
AlOrd == <<"-", "0a", "1-", "A", "Z", "a", "a1", "aa">>
AlIdx(s) == CHOOSE i \in DOMAIN AlOrd : AlOrd[i] = s

NumIds == {Id(TRUE, n, "") : n \in {0, 1, 9, 10}}
AlIds  == {Id(FALSE, 0, AlOrd[i]) : i \in DOMAIN AlOrd}
Ids    == NumIds \cup AlIds

Pres == {<<>>} \cup {<<a>> : a \in Ids} \cup {<<a, b>> : a \in Ids, b \in Ids}
Cores == {<<1, 0, 0>>, <<1, 0, 9>>, <<1, 0, 10>>, <<1, 2, 0>>, <<1, 10, 0>>, <<2, 0, 0>>, <<10, 0, 0>>}
Versions == {[core |-> c, pre |-> p] : c \in Cores, p \in Pres}

\* identifiers: numeric below alphanumeric; numeric by value; alphanumeric by ASCII
IdLess(a, b) ==
  IF a.num /\ b.num THEN a.n < b.n
  ELSE IF a.num # b.num THEN a.num
  ELSE AlIdx(a.s) < AlIdx(b.s)

RECURSIVE PreLess(_, _)
PreLess(p, q) ==       \* both non-empty lists of identifiers
  IF p = <<>> THEN q # <<>>                   \* a smaller set of fields is lower
  ELSE IF q = <<>> THEN FALSE
  ELSE IF Head(p) = Head(q) THEN PreLess(Tail(p), Tail(q))
  ELSE IdLess(Head(p), Head(q))

CoreLess(c, d) ==
  \/ c[1] < d[1]
  \/ c[1] = d[1] /\ c[2] < d[2]
  \/ c[1] = d[1] /\ c[2] = d[2] /\ c[3] < d[3]

Less(v, w) ==
  \/ CoreLess(v.core, w.core)
  \/ /\ v.core = w.core
     /\ \/ v.pre # <<>> /\ w.pre = <<>>       \* a pre-release is below the release
        \/ v.pre # <<>> /\ w.pre # <<>> /\ PreLess(v.pre, w.pre)

RankOf(v) == Cardinality({w \in Versions : Less(w, v)})

VARIABLES ver, rank
vars == <<ver, rank>>
Init == ver \in Versions /\ rank = RankOf(ver)
Next == UNCHANGED vars

\* the model's own theorems: strict total order
Trichotomy == \A w \in Versions :
   (IF Less(ver, w) THEN 1 ELSE 0) + (IF Less(w, ver) THEN 1 ELSE 0) + (IF w = ver THEN 1 ELSE 0) = 1
Probe == {[core |-> <<1, 0, 0>>, pre |-> p] : p \in {<<>>} \cup {<<a>> : a \in Ids} \cup {<<a, Id(TRUE, 1, "")>> : a \in Ids}}
Transitive == \A w, x \in Probe : (Less(ver, w) /\ Less(w, x)) => Less(ver, x)
PreBelowRelease == ver.pre # <<>> => Less(ver, [core |-> ver.core, pre |-> <<>>])
=============================================================================

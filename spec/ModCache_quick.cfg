SPECIFICATION Spec
CONSTANTS NP = 2 TPP = 1 NV = 1 NF = 2 MaxCrashes = 2 MaxFaults = 1 MaxOps = 3
INVARIANTS TypeOK NeverServePartial Stable ArtefactsAtomic WritersHoldLock CleanOnlyStale OneDownloadPerProcess MarkerDiscipline

SPECIFICATION Spec
CONSTANTS M = 8 V = 4 Sample = 3000 OneVersion = FALSE OlderMain = TRUE
INVARIANTS NoPanic SelectedIsMaxSeen Confluent Sufficient Minimal PrunedBelowFull

SPECIFICATION Spec
CONSTANTS M = 6 V = 3 Sample = 3000 OneVersion = FALSE OlderMain = TRUE
INVARIANTS NoPanic SelectedIsMaxSeen Confluent Sufficient Minimal PrunedBelowFull

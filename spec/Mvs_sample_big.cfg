SPECIFICATION Spec
CONSTANTS M = 6 V = 3 Sample = 400 OneVersion = FALSE OlderMain = TRUE
INVARIANTS NoPanic SelectedIsMaxSeen Confluent Sufficient Minimal PrunedBelowFull

SPECIFICATION Spec
CONSTANTS MaxSteps = 3 Sample = 150 MaxConj = 9
INVARIANT Conserved

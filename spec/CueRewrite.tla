----------------------------- MODULE CueRewrite -----------------------------
(***************************************************************************)
(* Meaning-preserving rearrangements of a CUE package.                     *)
(*                                                                         *)
(* A program is a sequence of files; a file is a sequence of declarations  *)
(* of the top-level fields a, b, c; a declaration carries a sequence of    *)
(* conjuncts taken from a pool (scalars, bounds, defaulted disjunctions,   *)
(* open and closed structs, a definition, references to sibling fields).   *)
(* The actions are the rewrites that, per the language specification, must *)
(* not change what the package evaluates to: swapping adjacent             *)
(* declarations, swapping operands of &, duplicating a conjunct, adding    *)
(* `& _`, wrapping a conjunct as the sole embedding {x}, changing the      *)
(* grouping of &, splitting a declaration in two declarations of the same  *)
(* field, merging them, moving a declaration to the other file, swapping   *)
(* the files.  TLC explores the orbit of every seed program up to MaxSteps *)
(* rewrites; the harness evaluates every state and compares its            *)
(* projection with the seed's.                                             *)
(***************************************************************************)
EXTENDS Integers, Sequences, FiniteSets, TLC, Randomization

CONSTANTS MaxSteps, Sample, MaxConj

Labels == <<"a", "b", "c">>
Pool == <<"int", "1", ">0", "<10", "(*1 | 2)", "(1 | *2)", "string", "{x: 1}", "{x: int, y?: 2}", "{x: >0}",
          "b", "c.x", "#D", "{y: 1}", "{[string]: int}",
          "(2 | {a: 2} | *\"a\")", "(2 | *int | string)", "(2 | *\"a\" | 1)",
          "close({x: int})", "a", "_", "{x: b}", "[1, 2]", "[...int]", "\"s\"", "=~\"^s\"", ">1", "<2", ">=1.5", "<=2",
          \* one pattern constraint instantiated with different values of an outer field (#M: {T: _, out: [string]: T})
          "(#M & {T: int}).out", "(#M & {T: string}).out", "{x: \"s\"}">>
NPool == Len(Pool)
TopIdx == 21

\* random seeds draw from the pool without the three marked disjunctions 16-18
\* (three marked operands: see CueDisj and the known finding recorded for C01)
RandIdx == <<0>> \o [i \in 1..15 |-> i] \o [i \in 1..(NPool - 18) |-> i + 18]

Conj(id, w) == [id |-> id, w |-> w]               \* w: wrapped as sole embedding {x}
Decl(lab, cs, g) == [lab |-> lab, cs |-> cs, g |-> g]   \* g: grouping of &: 0 flat, 1 right-nested

VARIABLES seed, files, n
vars == <<seed, files, n>>

\* ---- seeds: per label up to 3 conjuncts (0 = none) ----
SeedOf(f) ==
  LET mk(l) == LET ids == SelectSeq(f[l], LAMBDA x : x # 0) IN
               Decl(Labels[l], [j \in DOMAIN ids |-> Conj(ids[j], FALSE)], 0)
      ds == [l \in 1..3 |-> mk(l)]
  IN <<SelectSeq(ds, LAMBDA d : d.cs # <<>>), <<>>>>

\* a: #D & {y: 1} (an error: y is not allowed), b: a.  Wrapping the reference
\* `a` as {a} is only explored from this seed (known finding recorded for C01:
\* embedding a reference to a struct with a disallowed field drops the error).
RefWrapSeed == [l \in 1..3 |-> IF l = 1 THEN <<13, 14, 0>> ELSE IF l = 2 THEN <<20, 0, 0>> ELSE <<2, 0, 0>>]
RefIdx == {11, 12, 20}

\* hand-picked seeds exercising references, defaults and closedness together
Fixed == {
  [l \in 1..3 |-> IF l = 1 THEN <<16, 17, 18>> ELSE IF l = 2 THEN <<2, 0, 0>> ELSE <<8, 0, 0>>],
  [l \in 1..3 |-> IF l = 1 THEN <<11, 3, 0>> ELSE IF l = 2 THEN <<5, 1, 0>> ELSE <<13, 8, 0>>],
  [l \in 1..3 |-> IF l = 1 THEN <<13, 14, 0>> ELSE IF l = 2 THEN <<20, 0, 0>> ELSE <<9, 10, 12>>],
  [l \in 1..3 |-> IF l = 1 THEN <<22, 9, 0>> ELSE IF l = 2 THEN <<6, 4, 0>> ELSE <<19, 8, 0>>],
  [l \in 1..3 |-> IF l = 1 THEN <<24, 23, 0>> ELSE IF l = 2 THEN <<26, 25, 7>> ELSE <<15, 8, 0>>],
  RefWrapSeed,
  \* bounds that admit numbers but no integer, with the int arriving through a reference
  [l \in 1..3 |-> IF l = 1 THEN <<27, 28, 11>> ELSE IF l = 2 THEN <<1, 0, 0>> ELSE <<2, 0, 0>>],
  [l \in 1..3 |-> IF l = 1 THEN <<29, 30, 11>> ELSE IF l = 2 THEN <<1, 4, 0>> ELSE <<20, 3, 0>>],
  \* the same pattern expression instantiated twice: {x: 1} satisfies only one instantiation, whatever the order
  [l \in 1..3 |-> IF l = 1 THEN <<31, 32, 8>> ELSE IF l = 2 THEN <<32, 31, 33>> ELSE <<31, 8, 0>>],
  \* a: >0 & c.x & <10 where c is an erroneous struct (known finding: whether the
  \* reference c.x reports c's error depends on declaration / file order)
  [l \in 1..3 |-> IF l = 1 THEN <<3, 12, 4>> ELSE IF l = 2 THEN <<2, 0, 0>> ELSE <<14, 9, 19>>]
}

Init ==
  /\ seed \in Fixed \cup {[l \in 1..3 |-> [j \in 1..3 |-> RandIdx[f[l][j] + 1]]] :
                             f \in RandomSubset(Sample, [1..3 -> [1..3 -> 0..(Len(RandIdx) - 1)]])}
  /\ files = SeedOf(seed)
  /\ n = 0

\* ---- helpers ----
Swap(s, i) == [j \in DOMAIN s |-> IF j = i THEN s[i + 1] ELSE IF j = i + 1 THEN s[i] ELSE s[j]]
Remove(s, i) == SubSeq(s, 1, i - 1) \o SubSeq(s, i + 1, Len(s))
Insert(s, i, x) == SubSeq(s, 1, i - 1) \o <<x>> \o SubSeq(s, i, Len(s))
TotalConj == LET cnt(f) == LET c[j \in 0..Len(files[f])] == IF j = 0 THEN 0 ELSE c[j - 1] + Len(files[f][j].cs) IN c[Len(files[f])]
             IN cnt(1) + cnt(2)
SetDecl(f, i, d) == [files EXCEPT ![f][i] = d]

\* ---- rewrites ----
SwapDecl(f, i) == i < Len(files[f]) /\ files' = [files EXCEPT ![f] = Swap(files[f], i)]
SwapConj(f, i, j) == j < Len(files[f][i].cs) /\ files' = SetDecl(f, i, [files[f][i] EXCEPT !.cs = Swap(@, j)])
DupConj(f, i, j) == TotalConj < MaxConj /\ files' = SetDecl(f, i, [files[f][i] EXCEPT !.cs = Append(@, files[f][i].cs[j])])
AddTop(f, i) == TotalConj < MaxConj /\ files' = SetDecl(f, i, [files[f][i] EXCEPT !.cs = Append(@, Conj(TopIdx, FALSE))])
Wrap(f, i, j) == /\ (files[f][i].cs[j].id \notin RefIdx \/ seed = RefWrapSeed)
                 /\ files' = SetDecl(f, i, [files[f][i] EXCEPT !.cs[j].w = ~@])
Regroup(f, i) == Len(files[f][i].cs) >= 3 /\ files' = SetDecl(f, i, [files[f][i] EXCEPT !.g = 1 - @])
Split(f, i, k) ==
  LET d == files[f][i] IN
  /\ k < Len(d.cs)
  /\ files' = [files EXCEPT ![f] = SubSeq(@, 1, i - 1) \o <<Decl(d.lab, SubSeq(d.cs, 1, k), 0), Decl(d.lab, SubSeq(d.cs, k + 1, Len(d.cs)), 0)>> \o SubSeq(@, i + 1, Len(@))]
Merge(f, i) ==
  /\ i < Len(files[f]) /\ files[f][i].lab = files[f][i + 1].lab
  /\ files' = [files EXCEPT ![f] = SubSeq(@, 1, i - 1) \o <<Decl(files[f][i].lab, files[f][i].cs \o files[f][i + 1].cs, 0)>> \o SubSeq(@, i + 2, Len(@))]
Move(f, i) ==
  LET g == 3 - f IN
  files' = [h \in 1..2 |-> IF h = f THEN Remove(files[f], i) ELSE Append(files[g], files[f][i])]
SwapFiles == files[2] # <<>> /\ files' = <<files[2], files[1]>>

Next ==
  /\ n < MaxSteps /\ n' = n + 1 /\ UNCHANGED seed
  /\ \/ SwapFiles
     \/ \E f \in 1..2 : \E i \in DOMAIN files[f] :
          \/ SwapDecl(f, i) \/ AddTop(f, i) \/ Regroup(f, i) \/ Merge(f, i) \/ Move(f, i)
          \/ \E j \in DOMAIN files[f][i].cs : SwapConj(f, i, j) \/ DupConj(f, i, j) \/ Wrap(f, i, j) \/ Split(f, i, j)

Spec == Init /\ [][Next]_vars

\* the rewrites never lose or invent a conjunct: the set of (label, conjunct)
\* pairs other than `_` is the seed's (a structural sanity theorem)
Pairs(fs) == UNION {UNION {{<<fs[f][i].lab, fs[f][i].cs[j].id>> : j \in DOMAIN fs[f][i].cs} : i \in DOMAIN fs[f]} : f \in 1..2}
Conserved == {p \in Pairs(files) : p[2] # TopIdx} = {p \in Pairs(SeedOf(seed)) : p[2] # TopIdx}

TablesInit == seed = [pool |-> Pool, labels |-> Labels] /\ files = <<>> /\ n = 0
TablesNext == UNCHANGED vars
=============================================================================

SPECIFICATION Spec
CONSTANTS Mode = "automaton" Sample = 0 MaxPos = 0
INVARIANTS TypeOK Repeatable ParseErrorEnds DataExportsAgree
PROPERTY Terminates
CHECK_DEADLOCK FALSE

INIT Init
NEXT Next
CONSTANTS NM = 3 NV = 2 Sample = 40
INVARIANTS AbstractIsTidy AbstractIdempotent

SPECIFICATION Spec
CONSTANTS MaxConj = 2 MaxAlt = 2 Seed = 1 Sample = 0
INVARIANTS Swap2 Rot3 Idem DefaultWithinValue

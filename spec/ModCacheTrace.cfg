SPECIFICATION TraceSpec
CONSTANTS NP = 2 TPP = 2 NV = 2 NF = 3 MaxCrashes = 1000 MaxFaults = 1000 MaxOps = 1000
INVARIANTS NeverServePartial Stable ArtefactsAtomic WritersHoldLock CleanOnlyStale MarkerDiscipline OneDownloadPerProcess
CONSTRAINT Progress2
POSTCONDITION AllAccepted
CHECK_DEADLOCK FALSE

----------------------------- MODULE ModCache -----------------------------
(***************************************************************************)
(* The on-disk module cache of mod/modcache (Fetch, downloadZip,           *)
(* downloadZip1, fetchModFileData, writeDiskCache) together with           *)
(* modzip.Unzip, written one action per file-system effect / critical      *)
(* section, with process crashes and registry faults.                      *)
(*                                                                         *)
(* Threads are <<process, slot>>.  A process crash kills all its threads,  *)
(* releases the file locks they hold (flock dies with the process),        *)
(* forgets the process' single-flight caches and leaves the disk as is.    *)
(*                                                                         *)
(* Action names are the names of the verifhook points in the code; an      *)
(* event is emitted after the effect it names.                             *)
(***************************************************************************)
EXTENDS Integers, Sequences, FiniteSets, TLC

CONSTANTS NP,          \* number of processes
          TPP,         \* threads per process
          NV,          \* number of module versions
          NF,          \* files in each module zip
          MaxCrashes, MaxFaults, MaxOps

Procs   == 1..NP
Threads == Procs \X (1..TPP)
Vers    == 1..NV
Files   == 1..NF
NoThread == <<0, 0>>
ProcOf(t) == t[1]

VARIABLES
  \* ---- disk (persistent) ----
  zip,      \* [Vers -> {"absent","partial","complete"}]   the .zip at its final name
  ztmp,     \* [Vers -> [Threads -> {"none","partial","full"}]]  live temp files
  zstale,   \* [Vers -> BOOLEAN]  temp files left behind by dead writers
  mod,      \* [Vers -> {"absent","partial","complete"}]   the .mod at its final name
  mtmp,     \* [Vers -> [Threads -> {"none","partial","full"}]]
  mstale,   \* [Vers -> BOOLEAN]
  partial,  \* [Vers -> BOOLEAN]  the .partial marker
  dirx,     \* [Vers -> BOOLEAN]  extract directory exists
  files,    \* [Vers -> [Files -> {"missing","partial","full"}]]
  lock,     \* [Vers -> Threads \cup {NoThread}]  the per-version lock file
  \* ---- per process (volatile) ----
  zipOnce,  \* [Procs -> [Vers -> {"none","ok","err"}]]   par.ErrCache downloadZipCache
  zipRun,   \* [Procs -> [Vers -> Threads \cup {NoThread}]]
  modOnce,  \* same for modFileCache
  modRun,
  \* ---- per thread ----
  pc, cur, res, dirSeen, fidx,
  \* ---- history / budgets ----
  crashes, faults, ops,
  downloads,   \* [Procs -> [Vers -> Nat]]  GetZip calls in this incarnation
  served,      \* [Vers -> BOOLEAN]  the directory has been returned to some caller
  bad          \* a caller was given something incomplete

disk  == <<zip, ztmp, zstale, mod, mtmp, mstale, partial, dirx, files, lock>>
proc  == <<zipOnce, zipRun, modOnce, modRun>>
thr   == <<pc, cur, res, dirSeen, fidx>>
hist  == <<crashes, faults, ops, downloads, served, bad>>
vars  == <<disk, proc, thr, hist>>

Complete(v) == dirx[v] /\ ~partial[v] /\ \A f \in Files : files[v][f] = "full"

Init ==
  /\ zip = [v \in Vers |-> "absent"] /\ mod = [v \in Vers |-> "absent"]
  /\ ztmp = [v \in Vers |-> [t \in Threads |-> "none"]]
  /\ mtmp = [v \in Vers |-> [t \in Threads |-> "none"]]
  /\ zstale = [v \in Vers |-> FALSE] /\ mstale = [v \in Vers |-> FALSE]
  /\ partial = [v \in Vers |-> FALSE] /\ dirx = [v \in Vers |-> FALSE]
  /\ files = [v \in Vers |-> [f \in Files |-> "missing"]]
  /\ lock = [v \in Vers |-> NoThread]
  /\ zipOnce = [p \in Procs |-> [v \in Vers |-> "none"]]
  /\ modOnce = [p \in Procs |-> [v \in Vers |-> "none"]]
  /\ zipRun = [p \in Procs |-> [v \in Vers |-> NoThread]]
  /\ modRun = [p \in Procs |-> [v \in Vers |-> NoThread]]
  /\ pc = [t \in Threads |-> "idle"] /\ cur = [t \in Threads |-> 1]
  /\ res = [t \in Threads |-> "ok"] /\ dirSeen = [t \in Threads |-> FALSE]
  /\ fidx = [t \in Threads |-> 1]
  /\ crashes = 0 /\ faults = 0 /\ ops = 0
  /\ downloads = [p \in Procs |-> [v \in Vers |-> 0]]
  /\ served = [v \in Vers |-> FALSE] /\ bad = FALSE

Goto(t, l) == pc' = [pc EXCEPT ![t] = l]

\* ---------------------------------------------------------------- Fetch
StartFetch(t, v) ==
  /\ pc[t] = "idle" /\ ops < MaxOps
  /\ ops' = ops + 1 /\ cur' = [cur EXCEPT ![t] = v]
  /\ Goto(t, "F_StatDir")
  /\ UNCHANGED <<disk, proc, res, dirSeen, fidx, crashes, faults, downloads, served, bad>>

\* Returning the directory to the caller: the property is evaluated here.
ServeDir(t) ==
  /\ served' = [served EXCEPT ![cur[t]] = TRUE]
  /\ bad' = (bad \/ ~Complete(cur[t]))

\* downloadDir: first os.Stat(dir) ...
F_StatDir(t) ==
  /\ pc[t] = "F_StatDir"
  /\ Goto(t, IF dirx[cur[t]] THEN "F_StatPartial" ELSE "Z_Enter")
  /\ UNCHANGED <<disk, proc, cur, res, dirSeen, fidx, hist>>

\* ... then os.Stat(partialPath); absent => the directory is returned.
F_StatPartial(t) ==
  /\ pc[t] = "F_StatPartial"
  /\ IF ~partial[cur[t]]
       THEN Goto(t, "idle") /\ ServeDir(t)
       ELSE Goto(t, "Z_Enter") /\ UNCHANGED <<served, bad>>
  /\ UNCHANGED <<disk, proc, cur, res, dirSeen, fidx, crashes, faults, ops, downloads>>

\* downloadZipCache.Do: one runner per process and version, errors cached.
Z_Enter(t) ==
  LET p == ProcOf(t) v == cur[t] IN
  /\ pc[t] = "Z_Enter"
  /\ \/ /\ zipOnce[p][v] = "ok" /\ Goto(t, "F_Lock") /\ UNCHANGED zipRun
     \/ /\ zipOnce[p][v] = "err" /\ Goto(t, "idle") /\ UNCHANGED zipRun
     \/ /\ zipOnce[p][v] = "none" /\ zipRun[p][v] = NoThread
        /\ zipRun' = [zipRun EXCEPT ![p][v] = t] /\ Goto(t, "Z_Stat1")
  /\ UNCHANGED <<disk, zipOnce, modOnce, modRun, cur, res, dirSeen, fidx, hist>>

ZDone(t, r) ==
  LET p == ProcOf(t) v == cur[t] IN
  /\ zipOnce' = [zipOnce EXCEPT ![p][v] = r]
  /\ zipRun' = [zipRun EXCEPT ![p][v] = NoThread]

Z_Stat1(t) ==
  /\ pc[t] = "Z_Stat1"
  /\ IF zip[cur[t]] # "absent"
       THEN ZDone(t, "ok") /\ Goto(t, "F_Lock")
       ELSE Goto(t, "Z_Lock") /\ UNCHANGED <<zipOnce, zipRun>>
  /\ UNCHANGED <<disk, modOnce, modRun, cur, res, dirSeen, fidx, hist>>

Z_Lock(t) ==
  /\ pc[t] = "Z_Lock" /\ lock[cur[t]] = NoThread
  /\ lock' = [lock EXCEPT ![cur[t]] = t] /\ Goto(t, "Z_Stat2")
  /\ UNCHANGED <<zip, ztmp, zstale, mod, mtmp, mstale, partial, dirx, files, proc, cur, res, dirSeen, fidx, hist>>

Z_Stat2(t) ==
  /\ pc[t] = "Z_Stat2"
  /\ IF zip[cur[t]] # "absent"
       THEN Goto(t, "Z_Unlock") /\ res' = [res EXCEPT ![t] = "ok"]
       ELSE Goto(t, "Z_CleanTmp") /\ UNCHANGED res
  /\ UNCHANGED <<disk, proc, cur, dirSeen, fidx, hist>>

\* glob *.tmp and remove: every temp file of this version, whoever made it.
Z_CleanTmp(t) ==
  /\ pc[t] = "Z_CleanTmp"
  /\ ztmp' = [ztmp EXCEPT ![cur[t]] = [u \in Threads |-> "none"]]
  /\ zstale' = [zstale EXCEPT ![cur[t]] = FALSE]
  /\ Goto(t, "Z_CreateTmp")
  /\ UNCHANGED <<zip, mod, mtmp, mstale, partial, dirx, files, lock, proc, cur, res, dirSeen, fidx, hist>>

Z_CreateTmp(t) ==
  /\ pc[t] = "Z_CreateTmp"
  /\ ztmp' = [ztmp EXCEPT ![cur[t]][t] = "partial"]
  /\ Goto(t, "Z_Get")
  /\ UNCHANGED <<zip, zstale, mod, mtmp, mstale, partial, dirx, files, lock, proc, cur, res, dirSeen, fidx, hist>>

\* GetModule/GetZip: the registry is contacted (counted), and may fail.
Z_Get(t) ==
  /\ pc[t] = "Z_Get"
  /\ downloads' = [downloads EXCEPT ![ProcOf(t)][cur[t]] = @ + 1]
  /\ \/ Goto(t, "Z_Copy") /\ UNCHANGED faults
     \/ faults < MaxFaults /\ faults' = faults + 1 /\ Goto(t, "Z_Fail")
  /\ UNCHANGED <<disk, proc, cur, res, dirSeen, fidx, crashes, ops, served, bad>>

\* io.Copy into the temp file: completes, or the body fails part-way.
Z_Copied(t) ==
  /\ pc[t] = "Z_Copy"
  /\ ztmp' = [ztmp EXCEPT ![cur[t]][t] = "full"] /\ Goto(t, "Z_Rename")
  /\ UNCHANGED <<zip, zstale, mod, mtmp, mstale, partial, dirx, files, lock, proc, cur, res, dirSeen, fidx, hist>>

Z_CopyFault(t) ==
  /\ pc[t] = "Z_Copy" /\ faults < MaxFaults
  /\ faults' = faults + 1 /\ Goto(t, "Z_Fail")
  /\ UNCHANGED <<disk, proc, cur, res, dirSeen, fidx, crashes, ops, downloads, served, bad>>

\* os.Rename(tmp, zipfile): the only writer of the final name.
Z_Rename(t) ==
  /\ pc[t] = "Z_Rename"
  /\ zip' = [zip EXCEPT ![cur[t]] = IF ztmp[cur[t]][t] = "full" THEN "complete" ELSE "partial"]
  /\ ztmp' = [ztmp EXCEPT ![cur[t]][t] = "none"]
  /\ res' = [res EXCEPT ![t] = "ok"] /\ Goto(t, "Z_Unlock")
  /\ UNCHANGED <<zstale, mod, mtmp, mstale, partial, dirx, files, lock, proc, cur, dirSeen, fidx, hist>>

\* deferred cleanup on error: close and remove the temp file.
Z_Fail(t) ==
  /\ pc[t] = "Z_Fail"
  /\ ztmp' = [ztmp EXCEPT ![cur[t]][t] = "none"]
  /\ res' = [res EXCEPT ![t] = "err"] /\ Goto(t, "Z_Unlock")
  /\ UNCHANGED <<zip, zstale, mod, mtmp, mstale, partial, dirx, files, lock, proc, cur, dirSeen, fidx, hist>>

Z_Unlock(t) ==
  /\ pc[t] = "Z_Unlock"
  /\ lock' = [lock EXCEPT ![cur[t]] = NoThread]
  /\ ZDone(t, res[t])
  /\ Goto(t, IF res[t] = "ok" THEN "F_Lock" ELSE "idle")
  /\ UNCHANGED <<zip, ztmp, zstale, mod, mtmp, mstale, partial, dirx, files, modOnce, modRun, cur, res, dirSeen, fidx, hist>>

F_Lock(t) ==
  /\ pc[t] = "F_Lock" /\ lock[cur[t]] = NoThread
  /\ lock' = [lock EXCEPT ![cur[t]] = t] /\ Goto(t, "F_Recheck")
  /\ UNCHANGED <<zip, ztmp, zstale, mod, mtmp, mstale, partial, dirx, files, proc, cur, res, dirSeen, fidx, hist>>

\* second downloadDir, under the lock.
F_Recheck(t) ==
  /\ pc[t] = "F_Recheck"
  /\ IF dirx[cur[t]] /\ ~partial[cur[t]]
       THEN Goto(t, "F_UnlockOK") /\ UNCHANGED dirSeen
       ELSE /\ dirSeen' = [dirSeen EXCEPT ![t] = dirx[cur[t]]]
            /\ Goto(t, IF dirx[cur[t]] THEN "F_RemoveDir" ELSE "F_WritePartial")
  /\ UNCHANGED <<disk, proc, cur, res, fidx, hist>>

F_RemoveDir(t) ==
  /\ pc[t] = "F_RemoveDir"
  /\ dirx' = [dirx EXCEPT ![cur[t]] = FALSE]
  /\ files' = [files EXCEPT ![cur[t]] = [f \in Files |-> "missing"]]
  /\ Goto(t, "F_WritePartial")
  /\ UNCHANGED <<zip, ztmp, zstale, mod, mtmp, mstale, partial, lock, proc, cur, res, dirSeen, fidx, hist>>

F_WritePartial(t) ==
  /\ pc[t] = "F_WritePartial"
  /\ partial' = [partial EXCEPT ![cur[t]] = TRUE]
  /\ Goto(t, "U_Check")
  /\ UNCHANGED <<zip, ztmp, zstale, mod, mtmp, mstale, dirx, files, lock, proc, cur, res, dirSeen, fidx, hist>>

\* modzip.Unzip: target must be empty, the zip must pass CheckZip.
U_Check(t) ==
  /\ pc[t] = "U_Check"
  /\ IF (dirx[cur[t]] /\ \E f \in Files : files[cur[t]][f] # "missing") \/ zip[cur[t]] # "complete"
       THEN Goto(t, "F_UnzipFail1")
       ELSE Goto(t, "U_Mkdir")
  /\ UNCHANGED <<disk, proc, cur, res, dirSeen, fidx, hist>>

U_Mkdir(t) ==
  /\ pc[t] = "U_Mkdir"
  /\ dirx' = [dirx EXCEPT ![cur[t]] = TRUE]
  /\ fidx' = [fidx EXCEPT ![t] = 1] /\ Goto(t, "U_Create")
  /\ UNCHANGED <<zip, ztmp, zstale, mod, mtmp, mstale, partial, files, lock, proc, cur, res, dirSeen, hist>>

U_Create(t) ==
  /\ pc[t] = "U_Create"
  /\ files' = [files EXCEPT ![cur[t]][fidx[t]] = "partial"]
  /\ Goto(t, "U_Close")
  /\ UNCHANGED <<zip, ztmp, zstale, mod, mtmp, mstale, partial, dirx, lock, proc, cur, res, dirSeen, fidx, hist>>

U_Close(t) ==
  /\ pc[t] = "U_Close"
  /\ files' = [files EXCEPT ![cur[t]][fidx[t]] = "full"]
  /\ IF fidx[t] = NF THEN Goto(t, "F_RemovePartial") /\ UNCHANGED fidx
                     ELSE Goto(t, "U_Create") /\ fidx' = [fidx EXCEPT ![t] = @ + 1]
  /\ UNCHANGED <<zip, ztmp, zstale, mod, mtmp, mstale, partial, dirx, lock, proc, cur, res, dirSeen, hist>>

\* error branch of Fetch: RemoveAll(dir), then remove the marker.
F_UnzipFail1(t) ==
  /\ pc[t] = "F_UnzipFail1"
  /\ dirx' = [dirx EXCEPT ![cur[t]] = FALSE]
  /\ files' = [files EXCEPT ![cur[t]] = [f \in Files |-> "missing"]]
  /\ Goto(t, "F_UnzipFail2")
  /\ UNCHANGED <<zip, ztmp, zstale, mod, mtmp, mstale, partial, lock, proc, cur, res, dirSeen, fidx, hist>>

F_UnzipFail2(t) ==
  /\ pc[t] = "F_UnzipFail2"
  /\ partial' = [partial EXCEPT ![cur[t]] = FALSE]
  /\ Goto(t, "F_UnlockErr")
  /\ UNCHANGED <<zip, ztmp, zstale, mod, mtmp, mstale, dirx, files, lock, proc, cur, res, dirSeen, fidx, hist>>

F_RemovePartial(t) ==
  /\ pc[t] = "F_RemovePartial"
  /\ partial' = [partial EXCEPT ![cur[t]] = FALSE]
  /\ Goto(t, "F_UnlockOK")
  /\ UNCHANGED <<zip, ztmp, zstale, mod, mtmp, mstale, dirx, files, lock, proc, cur, res, dirSeen, fidx, hist>>

F_UnlockOK(t) ==
  /\ pc[t] = "F_UnlockOK"
  /\ lock' = [lock EXCEPT ![cur[t]] = NoThread]
  /\ ServeDir(t) /\ Goto(t, "idle")
  /\ UNCHANGED <<zip, ztmp, zstale, mod, mtmp, mstale, partial, dirx, files, proc, cur, res, dirSeen, fidx, crashes, faults, ops, downloads>>

F_UnlockErr(t) ==
  /\ pc[t] = "F_UnlockErr"
  /\ lock' = [lock EXCEPT ![cur[t]] = NoThread] /\ Goto(t, "idle")
  /\ UNCHANGED <<zip, ztmp, zstale, mod, mtmp, mstale, partial, dirx, files, proc, cur, res, dirSeen, fidx, hist>>

\* ------------------------------------------------------------- ModFile
StartModFile(t, v) ==
  /\ pc[t] = "idle" /\ ops < MaxOps
  /\ ops' = ops + 1 /\ cur' = [cur EXCEPT ![t] = v]
  /\ Goto(t, "M_Enter")
  /\ UNCHANGED <<disk, proc, res, dirSeen, fidx, crashes, faults, downloads, served, bad>>

MDone(t, r) ==
  LET p == ProcOf(t) v == cur[t] IN
  /\ modOnce' = [modOnce EXCEPT ![p][v] = r]
  /\ modRun' = [modRun EXCEPT ![p][v] = NoThread]

M_Enter(t) ==
  LET p == ProcOf(t) v == cur[t] IN
  /\ pc[t] = "M_Enter"
  /\ \/ /\ modOnce[p][v] \in {"ok", "err"} /\ Goto(t, "idle") /\ UNCHANGED modRun
     \/ /\ modOnce[p][v] = "none" /\ modRun[p][v] = NoThread
        /\ modRun' = [modRun EXCEPT ![p][v] = t] /\ Goto(t, "M_Read1")
  /\ UNCHANGED <<disk, zipOnce, zipRun, modOnce, cur, res, dirSeen, fidx, hist>>

\* readDiskModFile before the lock: whatever is at the final name is used.
M_Read1(t) ==
  /\ pc[t] = "M_Read1"
  /\ IF mod[cur[t]] # "absent"
       THEN /\ MDone(t, "ok") /\ Goto(t, "idle")
            /\ bad' = (bad \/ mod[cur[t]] # "complete")
       ELSE Goto(t, "M_Lock") /\ UNCHANGED <<modOnce, modRun, bad>>
  /\ UNCHANGED <<disk, zipOnce, zipRun, cur, res, dirSeen, fidx, crashes, faults, ops, downloads, served>>

M_Lock(t) ==
  /\ pc[t] = "M_Lock" /\ lock[cur[t]] = NoThread
  /\ lock' = [lock EXCEPT ![cur[t]] = t] /\ Goto(t, "M_Read2")
  /\ UNCHANGED <<zip, ztmp, zstale, mod, mtmp, mstale, partial, dirx, files, proc, cur, res, dirSeen, fidx, hist>>

M_Read2(t) ==
  /\ pc[t] = "M_Read2"
  /\ IF mod[cur[t]] # "absent"
       THEN /\ res' = [res EXCEPT ![t] = "ok"] /\ Goto(t, "M_Unlock")
            /\ bad' = (bad \/ mod[cur[t]] # "complete")
       ELSE Goto(t, "M_Get") /\ UNCHANGED <<res, bad>>
  /\ UNCHANGED <<disk, proc, cur, dirSeen, fidx, crashes, faults, ops, downloads, served>>

\* GetModule + ModuleFile: may fail; nothing on disk yet.
M_Get(t) ==
  /\ pc[t] = "M_Get"
  /\ \/ Goto(t, "M_CreateTmp") /\ UNCHANGED <<faults, res>>
     \/ /\ faults < MaxFaults /\ faults' = faults + 1
        /\ res' = [res EXCEPT ![t] = "err"] /\ Goto(t, "M_Unlock")
  /\ UNCHANGED <<disk, proc, cur, dirSeen, fidx, crashes, ops, downloads, served, bad>>

M_CreateTmp(t) ==
  /\ pc[t] = "M_CreateTmp"
  /\ mtmp' = [mtmp EXCEPT ![cur[t]][t] = "partial"] /\ Goto(t, "M_Write")
  /\ UNCHANGED <<zip, ztmp, zstale, mod, mstale, partial, dirx, files, lock, proc, cur, res, dirSeen, fidx, hist>>

M_Write(t) ==
  /\ pc[t] = "M_Write"
  /\ mtmp' = [mtmp EXCEPT ![cur[t]][t] = "full"] /\ Goto(t, "M_Rename")
  /\ UNCHANGED <<zip, ztmp, zstale, mod, mstale, partial, dirx, files, lock, proc, cur, res, dirSeen, fidx, hist>>

M_Rename(t) ==
  /\ pc[t] = "M_Rename"
  /\ mod' = [mod EXCEPT ![cur[t]] = IF mtmp[cur[t]][t] = "full" THEN "complete" ELSE "partial"]
  /\ mtmp' = [mtmp EXCEPT ![cur[t]][t] = "none"]
  /\ res' = [res EXCEPT ![t] = "ok"] /\ Goto(t, "M_Unlock")
  /\ UNCHANGED <<zip, ztmp, zstale, mstale, partial, dirx, files, lock, proc, cur, dirSeen, fidx, hist>>

M_Unlock(t) ==
  /\ pc[t] = "M_Unlock"
  /\ lock' = [lock EXCEPT ![cur[t]] = NoThread]
  /\ MDone(t, res[t]) /\ Goto(t, "idle")
  /\ UNCHANGED <<zip, ztmp, zstale, mod, mtmp, mstale, partial, dirx, files, zipOnce, zipRun, cur, res, dirSeen, fidx, hist>>

\* ---------------------------------------------------------- environment
Crash(p) ==
  /\ crashes < MaxCrashes /\ crashes' = crashes + 1
  /\ \E t \in Threads : ProcOf(t) = p /\ pc[t] \notin {"idle", "dead"}
  /\ pc' = [t \in Threads |-> IF ProcOf(t) = p THEN "dead" ELSE pc[t]]
  /\ lock' = [v \in Vers |-> IF ProcOf(lock[v]) = p THEN NoThread ELSE lock[v]]
  /\ zstale' = [v \in Vers |-> zstale[v] \/ \E t \in Threads : ProcOf(t) = p /\ ztmp[v][t] # "none"]
  /\ ztmp' = [v \in Vers |-> [t \in Threads |-> IF ProcOf(t) = p THEN "none" ELSE ztmp[v][t]]]
  /\ mstale' = [v \in Vers |-> mstale[v] \/ \E t \in Threads : ProcOf(t) = p /\ mtmp[v][t] # "none"]
  /\ mtmp' = [v \in Vers |-> [t \in Threads |-> IF ProcOf(t) = p THEN "none" ELSE mtmp[v][t]]]
  /\ zipOnce' = [zipOnce EXCEPT ![p] = [v \in Vers |-> "none"]]
  /\ modOnce' = [modOnce EXCEPT ![p] = [v \in Vers |-> "none"]]
  /\ zipRun' = [zipRun EXCEPT ![p] = [v \in Vers |-> NoThread]]
  /\ modRun' = [modRun EXCEPT ![p] = [v \in Vers |-> NoThread]]
  /\ downloads' = [downloads EXCEPT ![p] = [v \in Vers |-> 0]]
  /\ UNCHANGED <<zip, mod, partial, dirx, files, cur, res, dirSeen, fidx, faults, ops, served, bad>>

\* Crash immediately followed by Restart, and the two effects of the Unzip
\* error branch as one step: the granularity at which the trace observes them.
CrashRestart(p) ==
  /\ crashes < MaxCrashes /\ crashes' = crashes + 1
  /\ \E t \in Threads : ProcOf(t) = p /\ pc[t] \notin {"idle", "dead"}
  /\ pc' = [t \in Threads |-> IF ProcOf(t) = p THEN "idle" ELSE pc[t]]
  /\ lock' = [v \in Vers |-> IF ProcOf(lock[v]) = p THEN NoThread ELSE lock[v]]
  /\ zstale' = [v \in Vers |-> zstale[v] \/ \E t \in Threads : ProcOf(t) = p /\ ztmp[v][t] # "none"]
  /\ ztmp' = [v \in Vers |-> [t \in Threads |-> IF ProcOf(t) = p THEN "none" ELSE ztmp[v][t]]]
  /\ mstale' = [v \in Vers |-> mstale[v] \/ \E t \in Threads : ProcOf(t) = p /\ mtmp[v][t] # "none"]
  /\ mtmp' = [v \in Vers |-> [t \in Threads |-> IF ProcOf(t) = p THEN "none" ELSE mtmp[v][t]]]
  /\ zipOnce' = [zipOnce EXCEPT ![p] = [v \in Vers |-> "none"]]
  /\ modOnce' = [modOnce EXCEPT ![p] = [v \in Vers |-> "none"]]
  /\ zipRun' = [zipRun EXCEPT ![p] = [v \in Vers |-> NoThread]]
  /\ modRun' = [modRun EXCEPT ![p] = [v \in Vers |-> NoThread]]
  /\ downloads' = [downloads EXCEPT ![p] = [v \in Vers |-> 0]]
  /\ UNCHANGED <<zip, mod, partial, dirx, files, cur, res, dirSeen, fidx, faults, ops, served, bad>>

F_UnzipFail12(t) ==
  /\ pc[t] = "F_UnzipFail1"
  /\ dirx' = [dirx EXCEPT ![cur[t]] = FALSE]
  /\ files' = [files EXCEPT ![cur[t]] = [f \in Files |-> "missing"]]
  /\ partial' = [partial EXCEPT ![cur[t]] = FALSE]
  /\ Goto(t, "F_UnlockErr")
  /\ UNCHANGED <<zip, ztmp, zstale, mod, mtmp, mstale, lock, proc, cur, res, dirSeen, fidx, hist>>

Restart(p) ==
  /\ \E t \in Threads : ProcOf(t) = p /\ pc[t] = "dead"
  /\ pc' = [t \in Threads |-> IF ProcOf(t) = p THEN "idle" ELSE pc[t]]
  /\ UNCHANGED <<disk, proc, cur, res, dirSeen, fidx, hist>>

ThreadStep(t) ==
  \/ F_StatDir(t) \/ F_StatPartial(t) \/ Z_Enter(t) \/ Z_Stat1(t) \/ Z_Lock(t) \/ Z_Stat2(t)
  \/ Z_CleanTmp(t) \/ Z_CreateTmp(t) \/ Z_Get(t) \/ Z_Copied(t) \/ Z_CopyFault(t)
  \/ Z_Rename(t) \/ Z_Fail(t) \/ Z_Unlock(t) \/ F_Lock(t) \/ F_Recheck(t) \/ F_RemoveDir(t)
  \/ F_WritePartial(t) \/ U_Check(t) \/ U_Mkdir(t) \/ U_Create(t) \/ U_Close(t)
  \/ F_UnzipFail1(t) \/ F_UnzipFail2(t) \/ F_RemovePartial(t) \/ F_UnlockOK(t) \/ F_UnlockErr(t)
  \/ M_Enter(t) \/ M_Read1(t) \/ M_Lock(t) \/ M_Read2(t) \/ M_Get(t) \/ M_CreateTmp(t)
  \/ M_Write(t) \/ M_Rename(t) \/ M_Unlock(t)

Next ==
  \/ \E t \in Threads : ThreadStep(t)
  \/ \E t \in Threads, v \in Vers : StartFetch(t, v) \/ StartModFile(t, v)
  \/ \E p \in Procs : Crash(p) \/ Restart(p)

Spec == Init /\ [][Next]_vars
FairSpec == Spec /\ \A t \in Threads : WF_vars(ThreadStep(t)) /\ \A p \in Procs : WF_vars(Restart(p))

\* ------------------------------------------------------------ properties
TypeOK ==
  /\ zip \in [Vers -> {"absent", "partial", "complete"}]
  /\ mod \in [Vers -> {"absent", "partial", "complete"}]
  /\ lock \in [Vers -> Threads \cup {NoThread}]
  /\ partial \in [Vers -> BOOLEAN] /\ dirx \in [Vers -> BOOLEAN]

\* A directory is never reported available while incomplete; cached
\* module-file data handed to a caller is complete.
NeverServePartial == ~bad

\* Once returned to a caller the directory stays complete.
Stable == \A v \in Vers : served[v] => Complete(v)

\* Final names hold a complete artefact or nothing, in every state.
ArtefactsAtomic == \A v \in Vers : zip[v] \in {"absent", "complete"} /\ mod[v] \in {"absent", "complete"}

WriterPCs == {"Z_Stat2", "Z_CleanTmp", "Z_CreateTmp", "Z_Get", "Z_Copy", "Z_Rename", "Z_Fail", "Z_Unlock",
              "F_Recheck", "F_RemoveDir", "F_WritePartial", "U_Check", "U_Mkdir", "U_Create", "U_Close",
              "F_UnzipFail1", "F_UnzipFail2", "F_RemovePartial", "F_UnlockOK", "F_UnlockErr",
              "M_Read2", "M_Get", "M_CreateTmp", "M_Write", "M_Rename", "M_Unlock"}
\* Every thread inside a writing section holds the version's lock.
WritersHoldLock == \A t \in Threads : pc[t] \in WriterPCs => lock[cur[t]] = t

\* Temp-file cleanup never removes a live writer's file.
CleanOnlyStale == \A t \in Threads : pc[t] = "Z_CleanTmp" =>
                     \A u \in Threads : u # t => ztmp[cur[t]][u] = "none"

\* One download per version per process incarnation.
OneDownloadPerProcess == \A p \in Procs, v \in Vers : downloads[p][v] <= 1

\* A marker-less existing directory is complete (what downloadDir relies on).
MarkerDiscipline == \A v \in Vers : (dirx[v] /\ ~partial[v]) => \A f \in Files : files[v][f] = "full"

\* Liveness (FairSpec): every operation finishes; every started fetch of a
\* process that stays up is eventually served unless a registry fault hit it.
Progress == \A t \in Threads : (pc[t] # "idle") ~> (pc[t] = "idle")

\* State constraint helper for bounded exploration.
View == <<disk, proc, thr, crashes, faults, ops, served, bad>>
=============================================================================

INIT Init
NEXT Next

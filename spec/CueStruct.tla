----------------------------- MODULE CueStruct -----------------------------
(***************************************************************************)
(* Field constraints, pattern constraints and closedness                   *)
(* (doc/ref/spec.md: Structs, Closed structs, Embedding, Definitions).     *)
(*                                                                         *)
(* A schema conjunct is an abstract syntax tree                            *)
(*    [cl, decls, embeds]                                                  *)
(*  cl     : "open" | "close" (wrapped in close()) | "def" (reached        *)
(*           through a definition, which closes recursively)               *)
(*  decls  : field declarations [k, l, v], k one of                        *)
(*           reg  l: v      opt  l?: v      req  l!: v                     *)
(*           pat  [l]: v  (l names the pattern)      ell  ...              *)
(*  embeds : embedded structs [cl, decls]; an embedding adds its fields    *)
(*           and, if closed, closes the enclosing struct, whose own fields *)
(*           stay allowed (embeddings widen)                               *)
(* Admits(cs, d) says whether cs[1] & ... & cs[n] & d, d a concrete data   *)
(* struct, is a valid concrete value:                                      *)
(*   - every present field that can be restricted is allowed by every      *)
(*     closed conjunct (named field, matching pattern, or ellipsis),       *)
(*   - every constraint that applies to a present field is satisfied and   *)
(*     the field is concrete,                                              *)
(*   - every required field is present,                                    *)
(*   - hidden and definition fields are never restricted,                  *)
(*   - definitions close nested structs too, close() only one level.       *)
(* Every state is one (schemas, data) combination with the verdict; the    *)
(* harness compares with the real evaluator.                               *)
(***************************************************************************)
EXTENDS Integers, Sequences, FiniteSets, TLC

CONSTANTS MaxSchemas

Labels == {"a", "ab", "b", "c", "_h", "#x"}
Restrictable(l) == l \notin {"_h", "#x"}

D(k, l, v) == [k |-> k, l |-> l, v |-> v]
Tree(cl, decls, embeds) == [cl |-> cl, decls |-> decls, embeds |-> embeds]
Emb(cl, decls) == [cl |-> cl, decls |-> decls]

\* ---- the schema alphabet (rendered by the harness from `text`) ----
Schemas == <<
  [text |-> "{a: int}",                       t |-> Tree("open", {D("reg", "a", "int")}, {})],
  [text |-> "{a?: int}",                      t |-> Tree("open", {D("opt", "a", "int")}, {})],
  [text |-> "{a!: int}",                      t |-> Tree("open", {D("req", "a", "int")}, {})],
  [text |-> "{a: 1}",                         t |-> Tree("open", {D("reg", "a", "1")}, {})],
  [text |-> "{[string]: int}",                t |-> Tree("open", {D("pat", "string", "int")}, {})],
  [text |-> "{[=~\"^a\"]: int}",              t |-> Tree("open", {D("pat", "^a", "int")}, {})],
  [text |-> "{a: int, ...}",                  t |-> Tree("open", {D("reg", "a", "int"), D("ell", "", "")}, {})],
  [text |-> "close({a: int})",                t |-> Tree("close", {D("reg", "a", "int")}, {})],
  [text |-> "close({a?: int})",               t |-> Tree("close", {D("opt", "a", "int")}, {})],
  [text |-> "close({a?: int, ...})",          t |-> Tree("close", {D("opt", "a", "int"), D("ell", "", "")}, {})],
  [text |-> "close({[=~\"^a\"]: int})",       t |-> Tree("close", {D("pat", "^a", "int")}, {})],
  [text |-> "#D: {a: int}",                   t |-> Tree("def", {D("reg", "a", "int")}, {})],
  [text |-> "#D: {a?: int, b?: int}",         t |-> Tree("def", {D("opt", "a", "int"), D("opt", "b", "int")}, {})],
  [text |-> "#D: {a!: int}",                  t |-> Tree("def", {D("req", "a", "int")}, {})],
  [text |-> "#D: {a?: int}; {#D, b?: int}",   t |-> Tree("open", {D("opt", "b", "int")}, {Emb("def", {D("opt", "a", "int")})})],
  [text |-> "#D: {a?: int}; #E: {b?: int}; {#D, #E}",
                                              t |-> Tree("open", {}, {Emb("def", {D("opt", "a", "int")}), Emb("def", {D("opt", "b", "int")})})],
  [text |-> "#D: {a?: {b: int}}",             t |-> Tree("def", {D("opt", "a", "N")}, {})],
  [text |-> "close({a?: {b: int}})",          t |-> Tree("close", {D("opt", "a", "N")}, {})],
  [text |-> "{a?: {b: int}}",                 t |-> Tree("open", {D("opt", "a", "N")}, {})],
  [text |-> "#D: {[=~\"^a\"]: int}",          t |-> Tree("def", {D("pat", "^a", "int")}, {})],
  [text |-> "{close({a?: int}), b?: int}",    t |-> Tree("open", {D("opt", "b", "int")}, {Emb("close", {D("opt", "a", "int")})})],
  [text |-> "#D: {a?: int, ...}",             t |-> Tree("def", {D("opt", "a", "int"), D("ell", "", "")}, {})],
  [text |-> "#D: {a?: 1, b!: int}",           t |-> Tree("def", {D("opt", "a", "1"), D("req", "b", "int")}, {})],
  [text |-> "{b: 2}",                         t |-> Tree("open", {D("reg", "b", "2")}, {})],
  \* definitions reached through an embedding, and definitions whose value is a close() call,
  \* still close the nested struct
  [text |-> "#D: {a?: {b: int}}; {#D}",       t |-> Tree("open", {}, {Emb("def", {D("opt", "a", "N")})})],
  [text |-> "#D: {a?: {b: int}}; {#D, b?: int}", t |-> Tree("open", {D("opt", "b", "int")}, {Emb("def", {D("opt", "a", "N")})})],
  [text |-> "#D: close({a?: {b: int}}); {#D}", t |-> Tree("open", {}, {Emb("def", {D("opt", "a", "N")})})],
  [text |-> "#D: close({a?: {b: int}})",      t |-> Tree("def", {D("opt", "a", "N")}, {})],
  \* open structs with (open) embeddings at two nesting levels stay open at both
  [text |-> "{{b?: int}, a?: {{c?: int}, b: int}}", t |-> Tree("open", {D("opt", "a", "N")}, {Emb("open", {D("opt", "b", "int")})})],
  [text |-> "{{}, a?: {{}, b: int}}",         t |-> Tree("open", {D("opt", "a", "N")}, {Emb("open", {})})]
>>
NS == Len(Schemas)

\* ---- data structs: label -> value name ("-" absent) ----
Dat(a, ab, b, c, h, x) == [a |-> a, ab |-> ab, b |-> b, c |-> c, _h |-> h, x |-> x]
Data == <<
  [text |-> "{}",                     d |-> Dat("-", "-", "-", "-", "-", "-")],
  [text |-> "{a: 1}",                 d |-> Dat("1", "-", "-", "-", "-", "-")],
  [text |-> "{a: 2}",                 d |-> Dat("2", "-", "-", "-", "-", "-")],
  [text |-> "{b: 1}",                 d |-> Dat("-", "-", "1", "-", "-", "-")],
  [text |-> "{a: 1, b: 1}",           d |-> Dat("1", "-", "1", "-", "-", "-")],
  [text |-> "{ab: 1}",                d |-> Dat("-", "1", "-", "-", "-", "-")],
  [text |-> "{a: \"s\"}",             d |-> Dat("s", "-", "-", "-", "-", "-")],
  [text |-> "{c: 1}",                 d |-> Dat("-", "-", "-", "1", "-", "-")],
  [text |-> "{a: 1, c: 1}",           d |-> Dat("1", "-", "-", "1", "-", "-")],
  [text |-> "{a: {b: 1}}",            d |-> Dat("Nb1", "-", "-", "-", "-", "-")],
  [text |-> "{a: {b: 1, c: 1}}",      d |-> Dat("Nb1c1", "-", "-", "-", "-", "-")],
  [text |-> "{a: 1, _h: 1}",          d |-> Dat("1", "-", "-", "-", "1", "-")],
  [text |-> "{a: 1, #x: 1}",          d |-> Dat("1", "-", "-", "-", "-", "1")],
  [text |-> "{b: 1, _h: 1, #x: 1}",   d |-> Dat("-", "-", "1", "-", "1", "1")]
>>
ND == Len(Data)
DataVal(d, l) == IF l = "a" THEN d.a ELSE IF l = "ab" THEN d.ab ELSE IF l = "b" THEN d.b
                 ELSE IF l = "c" THEN d.c ELSE IF l = "_h" THEN d._h ELSE d.x

\* ---- meaning of a conjunct ----
Match(p, l) == Restrictable(l) /\ (p = "string" \/ (p = "^a" /\ l \in {"a", "ab"}))
Applies(dc, l) == (dc.k \in {"reg", "opt", "req"} /\ dc.l = l) \/ (dc.k = "pat" /\ Match(dc.l, l))
OwnAllows(decls, l) == \E dc \in decls : Applies(dc, l) \/ dc.k = "ell"
AllDecls(t) == t.decls \cup UNION {e.decls : e \in t.embeds}
Closed(t) == t.cl # "open" \/ \E e \in t.embeds : e.cl # "open"
Allows(t, l) == OwnAllows(t.decls, l) \/ \E e \in t.embeds : OwnAllows(e.decls, l)
Regular(t) == {dc.l : dc \in {x \in AllDecls(t) : x.k = "reg"}}
Required(t) == {dc.l : dc \in {x \in AllDecls(t) : x.k = "req"}}
\* value constraints a conjunct puts on label l, each with whether a nested
\* struct under it is closed (definitions close recursively)
Constr(t, l) == {<<dc.v, t.cl = "def">> : dc \in {x \in t.decls : Applies(x, l)}}
                \cup UNION {{<<dc.v, e.cl = "def">> : dc \in {x \in e.decls : Applies(x, l)}} : e \in t.embeds}

\* ---- field values ----
\* scalars int string 1 2 s ; N = the struct schema {b: int} ; Nb1 = {b: 1} ; Nb1c1 = {b: 1, c: 1}
\* result: "bot" | "conc" | "inconc"
FieldOutcome(vals) ==          \* vals: set of <<value name, nested closed>>
  LET names == {v[1] : v \in vals}
      ints == names \cap {"1", "2"}
      structs == names \cap {"N", "Nb1", "Nb1c1"}
      scal == names \cap {"int", "string", "1", "2", "s"}
  IN IF structs # {} /\ scal # {} THEN "bot"
     ELSE IF structs # {}
       THEN IF "Nb1c1" \in names /\ \E v \in vals : v[1] = "N" /\ v[2] THEN "bot"   \* c not allowed in the closed nested struct
            ELSE IF names \cap {"Nb1", "Nb1c1"} # {} THEN "conc" ELSE "inconc"
     ELSE IF Cardinality(ints) > 1 THEN "bot"
     ELSE IF ("string" \in names \/ "s" \in names) /\ (ints # {} \/ "int" \in names) THEN "bot"
     ELSE IF ints # {} \/ "s" \in names THEN "conc"
     ELSE "inconc"

\* ---- the verdict ----
Admits(ts, d) ==
  LET present == {l \in Labels : DataVal(d, l) # "-"} \cup UNION {Regular(ts[i]) : i \in DOMAIN ts}
  IN /\ \A l \in present : Restrictable(l) =>
          \A i \in DOMAIN ts : Closed(ts[i]) => Allows(ts[i], l)
     /\ \A l \in present :
          FieldOutcome((IF DataVal(d, l) # "-" THEN {<<DataVal(d, l), FALSE>>} ELSE {})
                       \cup UNION {Constr(ts[i], l) : i \in DOMAIN ts}) = "conc"
     /\ \A i \in DOMAIN ts : Required(ts[i]) \subseteq present

VARIABLES ss, dat, ok
vars == <<ss, dat, ok>>

TreesOf(s) == [i \in DOMAIN s |-> Schemas[s[i]].t]
Init == ss = <<>> /\ dat = 0 /\ ok = FALSE
Last == IF ss = <<>> THEN 1 ELSE ss[Len(ss)]
\* grow the (sorted) schema list, or attach a data struct (terminal)
Next ==
  /\ dat = 0
  /\ \/ /\ Len(ss) < MaxSchemas
        /\ \E i \in Last..NS : ss' = Append(ss, i) /\ dat' = 0 /\ ok' = FALSE
     \/ /\ ss # <<>>
        /\ \E j \in 1..ND : dat' = j /\ ss' = ss /\ ok' = Admits(TreesOf(ss), Data[j].d)
Spec == Init /\ [][Next]_vars

\* tables for the harness
TablesInit == /\ ss = [schemas |-> [i \in 1..NS |-> Schemas[i].text], data |-> [j \in 1..ND |-> Data[j].text]]
              /\ dat = 0 /\ ok = FALSE
TablesNext == UNCHANGED vars

\* ---- the model's own theorems ----
\* the verdict does not depend on the order of the conjuncts
OrderFree == (dat # 0 /\ Len(ss) = 2) =>
   Admits(<<Schemas[ss[2]].t, Schemas[ss[1]].t>>, Data[dat].d) = ok
\* open conjuncts alone never reject a field for not being allowed
OpenNeverRestricts == (dat # 0 /\ ~ok /\ \A i \in DOMAIN ss : ~Closed(Schemas[ss[i]].t)) =>
   LET ts == TreesOf(ss) d == Data[dat].d
       present == {l \in Labels : DataVal(d, l) # "-"} \cup UNION {Regular(ts[i]) : i \in DOMAIN ts}
   IN \/ \E l \in present : FieldOutcome((IF DataVal(d, l) # "-" THEN {<<DataVal(d, l), FALSE>>} ELSE {})
                                          \cup UNION {Constr(ts[i], l) : i \in DOMAIN ts}) # "conc"
      \/ \E i \in DOMAIN ts : ~(Required(ts[i]) \subseteq present)
=============================================================================

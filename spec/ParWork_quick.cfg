SPECIFICATION Spec
CONSTANTS W = 2 I = 3 Lazy = FALSE
INVARIANTS AtMostOnce WaitingCount ExitOnlyWhenDrained Conservation NoLostWakeup MutexOK

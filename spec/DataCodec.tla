------------------------------ MODULE DataCodec ------------------------------
(***************************************************************************)
(* Concrete data moving between CUE and the text encodings.                *)
(*                                                                         *)
(* A document is an object of up to MaxSlots members; a member has a key   *)
(* category and a value shape over leaf categories.  Categories name the   *)
(* adversarial families of the properties (YAML implicit types, indicator  *)
(* characters in first / inner / last position, control and non-BMP        *)
(* characters, numbers beyond float64 / int64, ...); the harness draws     *)
(* the concrete text of a category from its pool (seeded; all members in   *)
(* the thorough tier).                                                     *)
(*                                                                         *)
(* The protocol: every operation of a behaviour must leave the *data*      *)
(* unchanged (Same), an encoding that cannot represent the document must   *)
(* report an error instead of changing it (Rep), and the command line      *)
(* exits non-zero exactly then.  A state is a document plus a behaviour    *)
(* (sequence of operations); the harness replays it on the real API / CLI  *)
(* and decodes the bytes after every step with an independent decoder.     *)
(***************************************************************************)
EXTENDS Integers, Sequences, FiniteSets, TLC, Randomization

CONSTANTS Family,     \* "json" | "yaml" | "cli"
          MaxSlots, Sample

StrCats == <<"plain", "empty", "ws-only", "newline", "yaml-bool", "yaml-num", "yaml-date", "doc-marker",
             "ind-first", "ind-inner", "ind-last", "control", "nonbmp", "linesep", "quotes", "html", "long">>
NumCats == <<"small-int", "neg-zero", "big-exp", "high-prec", "gt-int64", "float-int", "exp-forms">>
OtherCats == <<"null", "true", "false">>
LeafCats == StrCats \o NumCats \o OtherCats
KeyCats == <<"plain", "empty", "yaml-bool", "yaml-num", "ind-first", "ind-inner", "unicode", "ws", "prefix">>
Shapes == <<"leaf", "list2", "obj1", "list-of-list", "obj-of-list", "list-of-obj", "obj-of-obj">>

NLeaf == Len(LeafCats)
IsStr(c) == c <= Len(StrCats)
IsNum(c) == c > Len(StrCats) /\ c <= Len(StrCats) + Len(NumCats)

Slot == [k : 1..Len(KeyCats), sh : 1..Len(Shapes), c1 : 1..NLeaf, c2 : 1..NLeaf]

\* what an encoding can represent
LeafRep(enc, c) ==
  CASE enc = "toml" -> LeafCats[c] \notin {"null", "gt-int64", "big-exp", "high-prec"}   \* no null; integers within int64; floats are 64 bit
    [] OTHER -> TRUE
SlotRep(enc, s) == LeafRep(enc, s.c1) /\ (Shapes[s.sh] # "leaf" => LeafRep(enc, s.c2))
Rep(enc, doc) == \A i \in DOMAIN doc : SlotRep(enc, doc[i])

\* behaviours per family
Behaviours ==
  CASE Family = "json" -> {<<"MarshalJSON", "GoDecode">>, <<"MarshalJSON", "JSONExtract", "MarshalJSON", "GoDecode">>,
                           <<"GoEncode", "JSONExtract", "MarshalJSON", "GoDecode">>}
    [] Family = "yaml" -> {<<"YAMLEncode", "YAMLExtract">>, <<"YAMLEncode", "YAMLExtract", "YAMLEncode", "YAMLExtract">>,
                           <<"MarshalJSON", "YAMLExtractOfJSON">>}
    [] Family = "cli" -> {<<"export-json">>, <<"export-yaml", "import-yaml", "export-json">>,
                          <<"export-toml", "import-toml", "export-json">>, <<"export-cue", "import-cue", "export-json">>,
                          <<"export-json", "import-json", "export-json">>, <<"export-yaml-escape", "import-yaml", "export-json">>,
                          <<"export-json-expr", "import-json", "export-json">>, <<"export-yaml-pkg", "import-yaml", "export-json">>}

EncOf(op) == CASE op \in {"export-toml", "import-toml"} -> "toml" [] OTHER -> "any"

VARIABLES doc, beh, mustFail
vars == <<doc, beh, mustFail>>

\* directed two-member documents: sibling keys of which one is a string prefix of the other ("job", "job1"),
\* holding arrays of tables / nested tables (TOML headers [[job]] and [job1.t] must not be confused)
Idx(seq, x) == CHOOSE i \in DOMAIN seq : seq[i] = x
DirSlot == [k : {Idx(KeyCats, "prefix")}, sh : {Idx(Shapes, "list-of-obj"), Idx(Shapes, "obj-of-obj"), Idx(Shapes, "obj1")},
            c1 : {Idx(LeafCats, "plain")}, c2 : {Idx(LeafCats, "small-int")}]
Directed == IF MaxSlots >= 2 THEN [1..2 -> DirSlot] ELSE {}

Docs == Directed \cup
        (IF Sample = 0
          THEN UNION {[1..n -> Slot] : n \in 1..MaxSlots}
          ELSE UNION {RandomSubset(Sample, [1..n -> Slot]) : n \in 1..MaxSlots})

Init ==
  /\ doc \in Docs
  /\ beh \in Behaviours
  \* The property claims TOML only for the TOML-safe subset (no null, integers within int64, 64-bit
  \* floats): documents an encoding of the behaviour cannot represent are outside the claim.
  /\ \A j \in DOMAIN beh : Rep(EncOf(beh[j]), doc)
  \* all data here is concrete and representable, so every step must succeed (exit status 0)
  /\ mustFail = FALSE
Next == UNCHANGED vars

RepSanity == ~mustFail

TablesInit == doc = [strcats |-> StrCats, numcats |-> NumCats, othercats |-> OtherCats, keycats |-> KeyCats, shapes |-> Shapes]
              /\ beh = <<>> /\ mustFail = FALSE
=============================================================================

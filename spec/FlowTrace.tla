---------------------------- MODULE FlowTrace ----------------------------
(***************************************************************************)
(* Validates executions of the real tools/flow controller against Flow.    *)
(* One trace = one workflow (header: deps, latentOf, failing) run under    *)
(* one completion order chosen by the harness; its events are              *)
(*   Update  - Config.UpdateFunc callback: the state of every task         *)
(*   Start   - a runner was invoked, with the dependency results it saw    *)
(*   Finish  - the harness lets a running task finish (ok / failure)       *)
(*   End     - Controller.Run returned                                     *)
(* The controller is sequential, so there is a single actor.               *)
(***************************************************************************)
EXTENDS Flow, Json

Traces == ndJsonDeserialize("traces.ndjson")    \* one line per trace: [wf, ev]
NT == Len(Traces)

VARIABLES k, i, pending
tvars == <<vars, k, i, pending>>

ToSet(s) == {s[j] : j \in DOMAIN s}
Evs == Traces[k].ev
HasNext == k <= NT /\ i <= Len(Evs)
E == Evs[i]
Consume == i' = i + 1 /\ UNCHANGED k

StMatches(s, obs) == \A t \in Tasks : s[t] = obs[t]

\* silent steps (no callback): leaving the dispatch pass, and the failing
\* completion, which ends the run without a callback
SilentStartWait == HasNext /\ E.ev \in {"Finish", "End"} /\ StartWait /\ UNCHANGED <<k, i, pending>>
SilentFailure   == HasNext /\ E.ev = "End" /\ pending # 0 /\ CollectFailure(pending)
                   /\ pending' = 0 /\ UNCHANGED <<k, i>>

EvUpdate ==
  /\ HasNext /\ E.ev = "Update" /\ Consume
  /\ \/ E.t = 0 /\ Begin /\ UNCHANGED pending
     \/ E.t # 0 /\ E.t = pending /\ Collect(E.t) /\ pending' = 0
  /\ StMatches(st', E.st)

EvStart ==
  /\ HasNext /\ E.ev = "Start" /\ Consume
  /\ Dispatch(E.t) /\ seen'[E.t] = ToSet(E.seen)
  /\ UNCHANGED pending

EvFinish ==
  /\ HasNext /\ E.ev = "Finish" /\ Consume
  /\ phase = "wait" /\ st[E.t] = "Running" /\ pending = 0
  /\ E.ok = (E.t # failing)
  /\ pending' = E.t /\ UNCHANGED vars

EvEnd ==
  /\ HasNext /\ E.ev = "End" /\ Consume
  /\ phase = "done" /\ pending = 0
  /\ E.ok = (result = "ok")
  /\ ~E.ok => E.err = result
  /\ E.ok => E.fin
  /\ UNCHANGED <<vars, pending>>

Load(kk) ==
  LET w == Traces[kk].wf IN
  /\ deps' = [t \in Tasks |-> ToSet(w.deps[t])]
  /\ latentOf' = [t \in Tasks |-> w.latentOf[t]]
  /\ failing' = w.failing
  /\ exists' = {t \in Tasks : w.latentOf[t] = 0}
  /\ st' = [t \in Tasks |-> IF w.latentOf[t] = 0 THEN "Waiting" ELSE "Absent"]
  /\ started' = [t \in Tasks |-> 0] /\ seen' = [t \in Tasks |-> {}]
  /\ filled' = {} /\ phase' = "new" /\ result' = ""

TraceReset ==
  /\ k <= NT /\ i = Len(Evs) + 1
  /\ k' = k + 1 /\ i' = 1 /\ pending' = 0
  /\ IF k + 1 <= NT THEN Load(k + 1) ELSE UNCHANGED vars

TraceInit ==
  /\ k = 1 /\ i = 1 /\ pending = 0
  /\ LET w == Traces[1].wf IN
     /\ deps = [t \in Tasks |-> ToSet(w.deps[t])]
     /\ latentOf = [t \in Tasks |-> w.latentOf[t]]
     /\ failing = w.failing
     /\ exists = {t \in Tasks : w.latentOf[t] = 0}
     /\ st = [t \in Tasks |-> IF w.latentOf[t] = 0 THEN "Waiting" ELSE "Absent"]
     /\ started = [t \in Tasks |-> 0] /\ seen = [t \in Tasks |-> {}]
     /\ filled = {} /\ phase = "new" /\ result = ""

TraceNext == EvUpdate \/ EvStart \/ EvFinish \/ EvEnd \/ SilentStartWait \/ SilentFailure \/ TraceReset
TraceSpec == TraceInit /\ [][TraceNext]_tvars

Progress2 ==
  /\ IF k - 1 > TLCGet(1) THEN TLCSet(1, k - 1) /\ TLCSet(2, 0) ELSE TRUE
  /\ IF k - 1 = TLCGet(1) /\ i - 1 > TLCGet(2) THEN TLCSet(2, i - 1) ELSE TRUE
  /\ IF k > NT THEN PrintT(<<"ACCEPTED", NT, "OF", NT, "CONSUMED", 0>>) /\ TLCSet("exit", TRUE) ELSE TRUE
ASSUME TLCSet(1, 0) /\ TLCSet(2, 0)
AllAccepted ==
  /\ PrintT(<<"ACCEPTED", TLCGet(1), "OF", NT, "CONSUMED", TLCGet(2)>>)
  /\ TLCGet(1) = NT
=============================================================================

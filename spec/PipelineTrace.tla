--------------------------- MODULE PipelineTrace ---------------------------
(***************************************************************************)
(* Validates recorded executions of the real pipeline against Pipeline.    *)
(* One trace per program: the events of run 1 (used context), run 2 (fresh *)
(* context) and run 3 (another process), each [r, st, oc, h] with the      *)
(* stage name, the outcome class and a digest of the stage's output.       *)
(* An event with any other outcome ("panic", "timeout", "memory",          *)
(* "crash", "exit") matches no action, and a trace must end with all three *)
(* runs complete.                                                          *)
(***************************************************************************)
EXTENDS Pipeline, Json

Traces == ndJsonDeserialize("traces.ndjson")    \* one line per program: [id, ev]
NT == Len(Traces)

VARIABLES k, i
tvars == <<vars, k, i>>

Evs == Traces[k].ev
HasNext == k <= NT /\ i <= Len(Evs)
E == Evs[i]

Ev ==
  /\ HasNext
  /\ E.r = run /\ stage <= NS /\ E.st = Stages[stage]
  /\ Step(E.oc, E.h)
  /\ i' = i + 1 /\ UNCHANGED k

TraceReset ==
  /\ k <= NT /\ i = Len(Evs) + 1 /\ Done
  /\ k' = k + 1 /\ i' = 1
  /\ run' = 1 /\ stage' = 1 /\ out' = [r \in Runs |-> <<>>]
  /\ UNCHANGED prog

TraceInit == Init /\ k = 1 /\ i = 1
TraceNext == Ev \/ TraceReset
TraceSpec == TraceInit /\ [][TraceNext]_tvars

Progress2 ==
  /\ IF k - 1 > TLCGet(1) THEN TLCSet(1, k - 1) /\ TLCSet(2, 0) ELSE TRUE
  /\ IF k - 1 = TLCGet(1) /\ i - 1 > TLCGet(2) THEN TLCSet(2, i - 1) ELSE TRUE
  /\ IF k > NT THEN PrintT(<<"ACCEPTED", NT, "OF", NT, "CONSUMED", 0>>) /\ TLCSet("exit", TRUE) ELSE TRUE
ASSUME TLCSet(1, 0) /\ TLCSet(2, 0)
AllAccepted ==
  /\ PrintT(<<"ACCEPTED", TLCGet(1), "OF", NT, "CONSUMED", TLCGet(2)>>)
  /\ TLCGet(1) = NT
=============================================================================

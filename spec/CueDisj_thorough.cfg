SPECIFICATION Spec
CONSTANTS MaxConj = 3 MaxAlt = 3 Seed = 1 Sample = 60
INVARIANTS Swap2 Rot3 Idem DefaultWithinValue

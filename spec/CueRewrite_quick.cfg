SPECIFICATION Spec
CONSTANTS MaxSteps = 2 Sample = 40 MaxConj = 8
INVARIANT Conserved

------------------------------ MODULE Pipeline ------------------------------
(***************************************************************************)
(* The pipeline  parse -> compile -> validate -> export (CUE, JSON, YAML)  *)
(* as a state machine, and the space of programs offered to it.            *)
(*                                                                         *)
(* A run takes one program text through the stages in order.  Every stage  *)
(* returns a value ("ok") or an ordinary error ("err"); there is no other  *)
(* outcome: no panic leaving the API, no stack overflow, no deadlock, no   *)
(* time or memory ceiling hit - such an event has no action here, so a     *)
(* trace containing one is not a behaviour of this specification.          *)
(*   parse err            -> the run ends (there is nothing to compile)    *)
(*   compile err          -> the value is an error: the data exports       *)
(*                           report an error too.  (Validate may still     *)
(*                           pass: a structural cycle below a definition   *)
(*                           makes Value.Err non-nil while Validate        *)
(*                           returns nil - odd, but outside the property.) *)
(*   validate err         -> the concrete validation is an error as well   *)
(* (Nothing is required between "concrete ok" and the data exports: a     *)
(* value may be concrete and still have no JSON form, e.g. a reference to  *)
(* a builtin package; such an export fails with an ordinary error.)        *)
(* Three runs are made of every program: in a context that has been used   *)
(* for other programs before (same process), in a fresh context, and in    *)
(* another process.  Repeatability: every stage of run 2 and run 3 has the *)
(* outcome and the output digest (bytes of the printed value, field order  *)
(* and error text included) of run 1.                                      *)
(*                                                                         *)
(* Programs (Mode = "programs"): fields a, b, c, each an expression from a *)
(* pool built to contain erroneous, incomplete and cyclic programs (self   *)
(* and mutual references, structural cycles, cyclic comprehensions and     *)
(* disjunctions, division by zero, conflicts, bounds next to required      *)
(* fields, dynamic fields from unresolved values ...).                     *)
(***************************************************************************)
EXTENDS Integers, Sequences, FiniteSets, TLC, Randomization

CONSTANTS Family,   \* "api" | "cli"
          Mode,     \* "programs" | "mutants" | "automaton"
          Sample,   \* 0: every program / mutant, n: n random ones (plus the fixed programs)
          MaxPos    \* mutants: positions 0..MaxPos (taken modulo the length of the seed)

Labels == <<"a", "b", "c">>
Pool == <<
  "1", "5", "\"s\"", "true", "null", "1.5", "'b'", "int", "string", ">0", "<=10", "=~\"^a\"", "number", "_", "_|_",
  "a", "b", "c", "a.x", "b.x", "c.y", "a[0]", "a.x.y",
  "a + 1", "b * 2", "a / 0", "1 / 0", "div(a, 0)", "a + \"s\"", "-a", "!a", "a - b", "a < b", "a == b",
  "{x: 1}", "{x: a}", "{x: b.x}", "{x: int, y?: 2}", "{x!: int}", "{[string]: int}", "{[=~\"^x\"]: a}", "close({x: 1})", "{x: 1, ...}",
  "{#D: {z: a}, w: #D}", "{x: c, y: x}", "{x: {x: {x: a}}}", "{>5, x!: int}", "{x!: int} & >5", "{x: 1} & {x: 2}", "{x: y, y: x}", "{x: y + 1, y: x - 1}",
  "[1, 2]", "[a]", "[...int]", "[a, ...b]", "[for v in a {v}]", "[for k, v in c {k}]", "[1, 2][2]", "[a][0]", "[...a]",
  "1 | 2", "*1 | 2", "a | b", "*a | 1", "1 | a", "*{x: 1} | {x: a}", "a | {x: a}",
  "{for k, v in a {(k): v}}", "{if a > 0 {x: 1}}", "{if b.x != _|_ {y: 1}}", "{for k, v in b {\"\\(k)2\": v}}",
  "a & {y: 1}", "{x: a.x}", "a & b", "b & >0", "a & {x: b}",
  "\"\\(a)\"", "\"\\(b.x)-\\(c)\"", "{let L = a, x: L}", "{let L = L2, let L2 = L, x: L}", "len(a)", "or([a, b])", "and([a, {x: 1}])",
  "{(a): 1}", "{\"\\(b)\": 2}", "{x: 1}.x", "{x: 1}.y", "close({x: 1}) & {y: 2}", "#Z", "{#Z: a, v: #Z & {q: 1}}",
  "{x: 1, x: 2}", "{x: >2 & <1}", "[1, 2] & [1]", "3 & 4.0", "\"a\" + 1", "{x: [x]}", "{x: [...x]}", "{x?: x}",
  "[1, 2, 3][5:]", "'abc'[4:]", "a[1:]", "[1, 2][1:0]", "[1, 2, 3][:5]", "a[b:]", "[1, 2, 3][-1:]", "{\"#a\": 1}", "{#a: 2}", "{_h: 1, \"_h\": 2}",
  \* many lets of one name in different scopes: the exporter has to invent distinct names
  "{p1: {let X = 1 + c, q: X}, p2: {let X = 2 + c, q: X}, p3: {let X = 3 + c, q: X}, p4: {let X = 4 + c, q: X}, p5: {let X = 5 + c, q: X}, p6: {let X = 6 + c, q: X}, p7: {let X = 7 + c, q: X}, p8: {let X = 8 + c, q: X}}">>
NP == Len(Pool)

\* hand-picked programs (indices into Pool per label)
Ix(s) == CHOOSE i \in 1..NP : Pool[i] = s
Fixed == {
  <<Ix("a"), Ix("1"), Ix("1")>>,                                  \* a: a
  <<Ix("b"), Ix("a"), Ix("1")>>,                                  \* a: b, b: a
  <<Ix("{x: a}"), Ix("a"), Ix("a.x")>>,                           \* structural cycle
  <<Ix("a + 1"), Ix("a"), Ix("b")>>,                              \* a: a + 1
  <<Ix("[a]"), Ix("a[0]"), Ix("1")>>,
  <<Ix("1 | a"), Ix("*a | 1"), Ix("a | b")>>,
  <<Ix("{>5, x!: int}"), Ix("{x!: int} & >5"), Ix("a & b")>>,     \* a bound embedded next to a required field
  <<Ix("{for k, v in a {(k): v}}"), Ix("{x: 1}"), Ix("a")>>,      \* comprehension over itself
  <<Ix("[for v in a {v}]"), Ix("a"), Ix("[...a]")>>,
  <<Ix("{x: [...x]}"), Ix("{x?: x}"), Ix("{x: [x]}")>>,
  <<Ix("{(a): 1}"), Ix("\"\\(a)\""), Ix("{\"\\(b)\": 2}")>>,
  <<Ix("{#Z: a, v: #Z & {q: 1}}"), Ix("#Z"), Ix("a.x.y")>>,
  <<Ix("{\"#a\": 1}"), Ix("{#a: 2}"), Ix("a & b")>>,              \* a definition and a regular field spelled alike
  <<Ix("[1, 2, 3][5:]"), Ix("'abc'[4:]"), Ix("a[1:]")>>,
  <<NP, Ix("a"), Ix("int")>>,                                     \* eight lets named X over the non-concrete c
  <<Ix("[1, 2]"), Ix("5"), Ix("a[b:]")>>,
  <<Ix("{let L = L2, let L2 = L, x: L}"), Ix("{x: y + 1, y: x - 1}"), Ix("{x: y, y: x}")>>
}

\* byte-level mutants of seed programs (Mode = "mutants"): operation x position x inserted text
Seeds == <<"a: {x: 1, y: x + 1}\nb: a & {z: \"s\"}\nc: [for k, v in a {k}]\n",
           "#D: {n: int, next?: #D}\na: #D & {n: 1, next: n: 2}\nb: *a.n | string\n",
           "import \"strings\"\na: strings.ToUpper(\"x\\(b)\")\nb: \"q\"\nc: {if len(a) > 1 {d: a}}\n",
           "a: >0 & <10 | *\"s\"\nb: {[=~\"^x\"]: int, x1: 2}\nc: b.x1 / 2\nlet L = c\nd: L\n">>
MutOps == <<"delete", "duplicate", "insert", "replace">>
Inserts == <<"{", "}", "[", "]", "(", ")", "\"", "\\(", ":", "&", "|", "*", "_|_", "\n", "a", "...", "#", "@x()", "\\", "1e9999999", "'", "?", "!", "=", "//", "/*", ".", "0x", "\t">>
Mutants == [seed : 1..Len(Seeds), op : 1..Len(MutOps), pos : 0..MaxPos, ins : 1..Len(Inserts)]

\* Family "api": the stages of the Go API; Family "cli": the same program through the cue command
\* (cue eval, cue export --out json, cue export --out cue), outcome ok = exit status 0,
\* err = exit status 1 with a message; a signal, a Go crash (exit status 2) or a hang is no outcome.
Stages == IF Family = "api" THEN <<"parse", "compile", "validate", "concrete", "cue", "json", "yaml">>
          ELSE <<"cli-eval", "cli-json", "cli-cue">>
NS == Len(Stages)
Runs == 1..3

VARIABLES prog,     \* <<ia, ib, ic>> in "programs" mode, <<>> otherwise
          run, stage,   \* next stage of the current run
          out       \* out[r] : sequence of [oc, h] per executed stage
vars == <<prog, run, stage, out>>

Progs == Fixed \cup (IF Sample = 0 THEN [1..3 -> 1..NP] ELSE RandomSubset(Sample, [1..3 -> 1..NP]))

Init ==
  /\ CASE Mode = "programs" -> prog \in Progs
       [] Mode = "mutants" -> prog \in (IF Sample = 0 THEN Mutants ELSE RandomSubset(Sample, Mutants))
       [] OTHER -> prog = <<>>
  /\ run = 1 /\ stage = 1
  /\ out = [r \in Runs |-> <<>>]

\* outcome of stage s given the earlier outcomes of this run
Oc(r, s) == out[r][s].oc
Allowed(r, s, oc) ==
  LET name == Stages[s] IN
  /\ oc \in {"ok", "err"}
  /\ (Family = "api" /\ name \in {"json", "yaml"} /\ Oc(r, 2) = "err") => oc = "err"
  /\ (Family = "api" /\ name = "concrete" /\ Oc(r, 3) = "err") => oc = "err"
  \* repeatability
  /\ (r > 1) => (s <= Len(out[1]) /\ oc = out[1][s].oc)

Step(oc, h) ==
  /\ run \in Runs /\ stage <= NS
  /\ Allowed(run, stage, oc)
  /\ (run > 1) => h = out[1][stage].h
  /\ out' = [out EXCEPT ![run] = Append(@, [oc |-> oc, h |-> h])]
  /\ IF (Family = "api" /\ stage = 1 /\ oc = "err") \/ stage = NS
       THEN run' = run + 1 /\ stage' = 1
       ELSE run' = run /\ stage' = stage + 1
  /\ UNCHANGED prog

Done == run = 4
\* digests abstracted to two values in the automaton mode
Next == (\E oc \in {"ok", "err"}, h \in 1..2 : Step(oc, h)) \/ (Done /\ UNCHANGED vars)
Spec == Init /\ [][Next]_vars /\ WF_vars(Next)
Stutter == UNCHANGED vars

\* ---- properties of the automaton (checked in Mode = "automaton") ----
TypeOK == run \in 1..4 /\ stage \in 1..NS /\ \A r \in Runs : Len(out[r]) <= NS
Repeatable == Done => (out[1] = out[2] /\ out[2] = out[3])
ParseErrorEnds == Family = "api" => \A r \in Runs : (Len(out[r]) >= 1 /\ out[r][1].oc = "err") => Len(out[r]) = 1
ErrorValueNotExported == Family = "api" => \A r \in Runs : (Len(out[r]) = NS /\ out[r][2].oc = "err") => (out[r][6].oc = "err" /\ out[r][7].oc = "err")
Terminates == <>Done

TablesInit == prog = [pool |-> Pool, labels |-> Labels, stages |-> Stages, seeds |-> Seeds, ops |-> MutOps, inserts |-> Inserts] /\ run = 0 /\ stage = 0 /\ out = <<>>
=============================================================================

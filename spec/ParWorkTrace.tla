--------------------------- MODULE ParWorkTrace ---------------------------
(***************************************************************************)
(* Validates executions of the real par.Work (driven by mvs.BuildList)     *)
(* against ParWork.  All hook events are emitted while holding w.mu (or    *)
(* by the runner between two critical sections), so the log is totally     *)
(* ordered; each event carries the scalar state the code saw (len(todo),   *)
(* waiting, running), which must equal the model's.                        *)
(***************************************************************************)
EXTENDS ParWork, Json

Traces == ndJsonDeserialize("traces.ndjson")    \* one line per trace: [ev]
NT == Len(Traces)

VARIABLES k, i, returned
tvars == <<vars, k, i, returned>>

Evs == Traces[k].ev
HasNext == k <= NT /\ i <= Len(Evs)
E == Evs[i]
Consume == i' = i + 1 /\ UNCHANGED k
Card(S) == Cardinality(S)

\* silent steps, only when the runner's next event needs them
Silent ==
  /\ HasNext /\ UNCHANGED <<k, i, returned>>
  /\ \/ E.ev \in {"W_Pick", "W_WaitEnter"} /\ Lock(E.w)
     \/ E.ev \in {"W_Pick", "W_WaitEnter"} /\ DoneAdding(E.w)
     \/ E.ev = "W_Add" /\ pc[E.w] = "run" /\ Run(E.w)          \* f(item) without a Require record
     \/ \E s \in Workers : pc[s] = "entered" /\ Sleep(s)        \* cond.Wait released the mutex

Ev ==
  /\ HasNext /\ Consume
  /\ \/ E.ev = "W_Pick" /\ Pick(E.w, E.it) /\ E.n = Card(todo') /\ UNCHANGED returned
     \/ E.ev = "W_WaitEnter" /\ WaitEnter(E.w) /\ E.wt = waiting' /\ E.rn = W /\ UNCHANGED returned
     \/ E.ev = "W_AllDone" /\ AllDone(E.w) /\ UNCHANGED returned
     \/ E.ev = "W_Wake" /\ Wake(E.w) /\ E.wt = waiting' /\ E.n = Card(todo) /\ UNCHANGED returned
     \/ E.ev = "MVS_Require" /\ pc[E.w] = "run" /\ item[E.w] = E.it /\ Run(E.w) /\ UNCHANGED returned
     \/ E.ev = "W_Add" /\ E.it \notin added /\ Add(E.w, E.it)
           /\ E.n = Card(todo') /\ E.wt = waiting /\ UNCHANGED returned
     \* Do returns: runner 1 has exited, hence (ExitOnlyWhenDrained) all is processed
     \/ E.ev = "W_Return" /\ pc[E.w] = "exited" /\ ~returned /\ returned' = TRUE /\ UNCHANGED vars

TraceReset ==
  /\ k <= NT /\ i = Len(Evs) + 1
  /\ k' = k + 1 /\ i' = 1 /\ returned' = FALSE
  /\ children' = children
  /\ added' = {1} /\ todo' = {1} /\ waiting' = 0 /\ mu' = 0 /\ sleeping' = {}
  /\ pc' = [w \in Workers |-> "top"] /\ item' = [w \in Workers |-> 0]
  /\ pend' = [w \in Workers |-> {}]
  /\ processed' = [j \in Items |-> 0]

TraceInit == Init /\ k = 1 /\ i = 1 /\ returned = FALSE
TraceNext == Ev \/ Silent \/ TraceReset
TraceSpec == TraceInit /\ [][TraceNext]_tvars

\* when Do has returned, everything added was processed exactly once
ReturnedDrained == returned => (todo = {} /\ \A j \in added : processed[j] = 1)

Progress2 ==
  /\ IF k - 1 > TLCGet(1) THEN TLCSet(1, k - 1) /\ TLCSet(2, 0) ELSE TRUE
  /\ IF k - 1 = TLCGet(1) /\ i - 1 > TLCGet(2) THEN TLCSet(2, i - 1) ELSE TRUE
  /\ IF k > NT THEN PrintT(<<"ACCEPTED", NT, "OF", NT, "CONSUMED", 0>>) /\ TLCSet("exit", TRUE) ELSE TRUE
ASSUME TLCSet(1, 0) /\ TLCSet(2, 0)
AllAccepted ==
  /\ PrintT(<<"ACCEPTED", TLCGet(1), "OF", NT, "CONSUMED", TLCGet(2)>>)
  /\ TLCGet(1) = NT
=============================================================================

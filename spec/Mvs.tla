-------------------------------- MODULE Mvs --------------------------------
(***************************************************************************)
(* Minimal version selection (internal/mod/mvs).                           *)
(*                                                                         *)
(* A requirement graph over modules 1..M (1 is the main module) and        *)
(* versions 1..V is chosen in Init.  The target is <<1, 0>>: the main      *)
(* module's own version "" which compares above every other version.       *)
(* Other modules may require older versions <<1, v>> of the main module,   *)
(* whose requirements then count like anybody else's.                      *)
(*                                                                         *)
(* Want is the definition of the result (vgo-mvs): for every module the    *)
(* maximum version among all nodes reachable from the target.  The         *)
(* algorithm part is buildList / Graph.Require stripped of concurrency:    *)
(* visit any pending node, record the max of what it requires, queue what  *)
(* was not seen.  TLC checks that every visiting order ends with           *)
(* selected = Want (schedule independence), that Graph.Require's two panic *)
(* conditions cannot fire, and that selected is always the max over what   *)
(* has been seen.  The initial states are the graphs the harness feeds to  *)
(* the real mvs.BuildList / Req.                                           *)
(***************************************************************************)
EXTENDS Integers, FiniteSets, Sequences, TLC, Randomization

CONSTANTS M, V,
          Sample,       \* 0: every graph of the family; k > 0: k random graphs (seeded)
          OneVersion,   \* TRUE: a requirement list names each module at most once
          OlderMain     \* TRUE: modules may require older versions of the main module

Mods == 1..M
Target == <<1, 0>>
Older == Mods \X (1..V)
Nodes == {Target} \cup Older
Rank(n) == IF n[2] = 0 THEN V + 1 ELSE n[2]
None == -1

Allowed(n) == {x \in Older : x[1] # n[1] /\ (OlderMain \/ x[1] # 1)}
RECURSIVE Reach(_, _, _)
Reach(S, f, fuel) ==
  IF fuel = 0 THEN S
  ELSE LET nx == S \cup UNION {f[n] : n \in S} IN IF nx = S THEN S ELSE Reach(nx, f, fuel - 1)

MaxVer(S, m) == LET vs == {Rank(n) : n \in {x \in S : x[1] = m}} IN
                IF vs = {} THEN None ELSE CHOOSE r \in vs : \A q \in vs : q <= r

WantOf(f) == [m \in Mods |-> MaxVer(Reach({Target}, f, Cardinality(Nodes)), m)]

\* The module loader (internal/mod/modrequirements) reads a *pruned* graph: the main module's roots and
\* the requirements of those roots, nothing deeper.  Its selection is the maximum over that part.
WantPrunedOf(f) == [m \in Mods |-> MaxVer(Reach({Target}, f, 2), m)]

\* unreachable nodes do not matter: keep their lists empty so each graph appears once

VARIABLES req, want, want1, todo, done, selected
vars == <<req, want, want1, todo, done, selected>>

Normalise(f) == [n \in Nodes |->
   LET a == f[n] \cap Allowed(n) IN
   IF OneVersion THEN {x \in a : \A y \in a : y[1] = x[1] => y[2] <= x[2]} ELSE a]
Prune(f) == [n \in Nodes |-> IF n \in Reach({Target}, f, Cardinality(Nodes)) THEN f[n] ELSE {}]

\* Exhaustive mode generates the graph lazily: the requirement list of a node
\* is chosen when the node is visited, so unreachable nodes never get a list
\* and each graph is one terminal state whatever the visiting order.
Options(n) == {r \in SUBSET Allowed(n) : OneVersion => \A x, y \in r : x[1] = y[1] => x = y}
Empty == [n \in Nodes |-> {}]

Init ==
  /\ IF Sample = 0 THEN req = Empty
     ELSE req \in {Prune(Normalise(f)) : f \in RandomSubset(Sample, [Nodes -> SUBSET Older])}
  /\ want = IF Sample = 0 THEN [m \in Mods |-> None] ELSE WantOf(req)
  /\ want1 = IF Sample = 0 THEN [m \in Mods |-> None] ELSE WantPrunedOf(req)
  /\ todo = {Target} /\ done = {}
  /\ selected = [m \in Mods |-> IF m = 1 THEN Rank(Target) ELSE None]

Max2(a, b) == IF a >= b THEN a ELSE b

\* one call of the work function: Required(n) then Graph.Require(n, required) under mu
Visit(n) ==
  /\ n \in todo
  /\ IF Sample = 0 THEN \E r \in Options(n) : req' = [req EXCEPT ![n] = r] ELSE UNCHANGED req
  /\ done' = done \cup {n}
  /\ selected' = [m \in Mods |-> Max2(selected[m], MaxVer(req'[n], m))]
  /\ todo' = (todo \cup req'[n]) \ done'
  /\ want' = IF todo' = {} THEN WantOf(req') ELSE want
  /\ want1' = IF todo' = {} THEN WantPrunedOf(req') ELSE want1

Next == \E n \in todo : Visit(n)
Spec == Init /\ [][Next]_vars

Seen == {Target} \cup UNION {req[n] : n \in done}
\* Graph.Require panics if m is not reachable or was already required
NoPanic == \A n \in todo : n \in Seen /\ n \notin done
SelectedIsMaxSeen == \A m \in Mods : selected[m] = MaxVer(Seen, m)
\* at the end the result is the definition, whatever the order
Confluent == todo = {} => (selected = want /\ done = Reach({Target}, req, Cardinality(Nodes)))
\* sufficiency and minimality spelled out
Sufficient == todo = {} => \A n \in done : \A x \in req[n] : selected[x[1]] >= Rank(x)
\* the pruned selection never exceeds the full one
PrunedBelowFull == todo = {} => \A m \in Mods : want1[m] <= want[m]
Minimal == todo = {} => \A m \in Mods : selected[m] = None \/ \E n \in done \cup {Target} : n[1] = m /\ Rank(n) = selected[m]
=============================================================================

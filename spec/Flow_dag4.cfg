SPECIFICATION Spec
CONSTANTS N = 4 AllowCycles = FALSE AllowLatent = TRUE AllowFail = TRUE
INVARIANTS TypeOK StartAfterDeps AtMostOnce LatentDiscipline NoDeadlock AtExit
PROPERTY FailureStops

SPECIFICATION Spec
CONSTANT MaxN = 4
INVARIANT DenIsIntersection OrderIndependent
PROPERTY Monotone

------------------------------ MODULE ModFile ------------------------------
(***************************************************************************)
(* Abstract module files (cue.mod/module.cue) and malformed variants.      *)
(* Every state is one module file value; the harness builds it, formats,   *)
(* parses and compares (round trip), and for each malformation kind checks *)
(* that the parser rejects the text instead of dropping the field.         *)
(***************************************************************************)
EXTENDS Integers, Sequences, FiniteSets, TLC

Paths == <<"a.test@v0", "b.test/sub@v1", "c-d.test@v2">>
DepVers == <<"v0.1.0", "v1.2.3-rc.1", "v2.0.0">>       \* index = module (major matches path)
LangVers == {"v0.8.0", "v0.9.2", "v0.13.0"}
Malformations == {"none", "unknown-top-field", "unknown-dep-field", "dep-version-not-string",
                  "non-canonical-version", "major-mismatch", "bad-module-path", "missing-language",
                  "deps-not-struct", "bad-language-version"}

VARIABLES mf, bad
vars == <<mf, bad>>

Init ==
  /\ mf \in [module : {"main.test@v0", "x.test/y@v1"},
             lang : LangVers,
             deps : SUBSET (1..3),               \* which of Paths are listed
             dflt : SUBSET (1..3),               \* which carry default: true
             source : {"", "git", "self"}]
  /\ mf.dflt \subseteq mf.deps
  /\ mf.source # "" => mf.lang # "v0.8.0"        \* the source field exists from language v0.9.0
  /\ bad \in Malformations
Next == UNCHANGED vars
=============================================================================

----------------------------- MODULE JsonSchema -----------------------------
(***************************************************************************)
(* JSON Schema (draft 2020-12) validity for the keyword subset on which    *)
(* encoding/jsonschema claims conformance, as an independent validator:    *)
(* Valid(schema, instance).                                                *)
(*                                                                         *)
(* Instances are a fixed universe of JSON values addressed by index;       *)
(* arrays and objects contain scalar instances (by index).  A schema is a  *)
(* record [k, n, s, subs]: keyword, numeric argument (numbers are stored   *)
(* doubled so 1.5 is 3), string argument, sub-schemas.  A state is one     *)
(* schema (a conjunction of 1-2 keyword schemas in one JSON object) with   *)
(* the set of instances it accepts; the harness renders it as JSON, runs   *)
(* jsonschema.Extract, and unifies every instance with the generated CUE;  *)
(* then jsonschema.Generate + Extract again.                               *)
(***************************************************************************)
EXTENDS Integers, Sequences, FiniteSets, TLC, Randomization

CONSTANTS Level,    \* 1: single keyword schemas with leaf sub-schemas; 2: also pairs and deeper nesting (sampled)
          Sample

\* ---- instances ----
I(t, n, s, items, props) == [t |-> t, n |-> n, s |-> s, items |-> items, props |-> props]
NoItems == <<>>
NoProps == {}
Inst == <<
  I("null", 0, "", NoItems, NoProps),          \* 1
  I("boolean", 1, "", NoItems, NoProps),       \* 2 true
  I("boolean", 0, "", NoItems, NoProps),       \* 3 false
  I("number", -2, "", NoItems, NoProps),       \* 4  -1
  I("number", 0, "", NoItems, NoProps),        \* 5  0
  I("number", 2, "", NoItems, NoProps),        \* 6  1
  I("number", 4, "", NoItems, NoProps),        \* 7  2
  I("number", 6, "", NoItems, NoProps),        \* 8  3
  I("number", 3, "", NoItems, NoProps),        \* 9  1.5
  I("number", 5, "", NoItems, NoProps),        \* 10 2.5
  I("string", 0, "", NoItems, NoProps),        \* 11 ""
  I("string", 0, "a", NoItems, NoProps),       \* 12
  I("string", 0, "ab", NoItems, NoProps),      \* 13
  I("string", 0, "abc", NoItems, NoProps),     \* 14
  I("string", 0, "b", NoItems, NoProps),       \* 15
  I("array", 0, "", <<>>, NoProps),            \* 16 []
  I("array", 0, "", <<6>>, NoProps),           \* 17 [1]
  I("array", 0, "", <<6, 6>>, NoProps),        \* 18 [1,1]
  I("array", 0, "", <<6, 7>>, NoProps),        \* 19 [1,2]
  I("array", 0, "", <<12>>, NoProps),          \* 20 ["a"]
  I("array", 0, "", <<6, 12>>, NoProps),       \* 21 [1,"a"]
  I("object", 0, "", NoItems, {}),             \* 22 {}
  I("object", 0, "", NoItems, {<<"a", 6>>}),   \* 23 {a:1}
  I("object", 0, "", NoItems, {<<"a", 12>>}),  \* 24 {a:"a"}
  I("object", 0, "", NoItems, {<<"b", 6>>}),   \* 25 {b:1}
  I("object", 0, "", NoItems, {<<"a", 6>>, <<"b", 7>>}),   \* 26 {a:1,b:2}
  I("object", 0, "", NoItems, {<<"ab", 6>>}),  \* 27 {ab:1}
  I("object", 0, "", NoItems, {<<"a", 6>>, <<"c", 12>>})   \* 28 {a:1,c:"a"}
>>
NI == Len(Inst)
IsInt(x) == x.t = "number" /\ x.n % 2 = 0
StrLen(s) == CASE s = "" -> 0 [] s \in {"a", "b", "c"} -> 1 [] s = "ab" -> 2 [] s = "abc" -> 3
MatchA(s) == s \in {"a", "ab", "abc"}            \* the pattern ^a

\* ---- schemas ----
S(k, n, s, subs) == [k |-> k, n |-> n, s |-> s, subs |-> subs]
Leaf(k, n, s) == S(k, n, s, <<>>)

RECURSIVE Valid(_, _)
ValidAll(ss, i) == \A j \in DOMAIN ss : Valid(ss[j], i)
Valid(sc, i) ==
  LET x == Inst[i] k == sc.k IN
  CASE k = "true" -> TRUE
    [] k = "false" -> FALSE
    [] k = "type" -> IF sc.s = "integer" THEN IsInt(x) ELSE x.t = sc.s
    [] k = "const" -> IF sc.s = "#num" THEN x.t = "number" /\ x.n = sc.n ELSE x.t = "string" /\ x.s = sc.s
    [] k = "enum" -> (x.t = "number" /\ x.n = 2) \/ (x.t = "string" /\ x.s = "a") \/ x.t = "null"      \* [1, "a", null]
    [] k = "minimum" -> x.t = "number" => x.n >= sc.n
    [] k = "maximum" -> x.t = "number" => x.n <= sc.n
    [] k = "exclusiveMinimum" -> x.t = "number" => x.n > sc.n
    [] k = "exclusiveMaximum" -> x.t = "number" => x.n < sc.n
    [] k = "multipleOf" -> x.t = "number" => x.n % sc.n = 0
    [] k = "minLength" -> x.t = "string" => StrLen(x.s) >= sc.n
    [] k = "maxLength" -> x.t = "string" => StrLen(x.s) <= sc.n
    [] k = "pattern" -> x.t = "string" => MatchA(x.s)
    [] k = "required" -> x.t = "object" => \E p \in x.props : p[1] = sc.s
    [] k = "minProperties" -> x.t = "object" => Cardinality(x.props) >= sc.n
    [] k = "maxProperties" -> x.t = "object" => Cardinality(x.props) <= sc.n
    [] k = "minItems" -> x.t = "array" => Len(x.items) >= sc.n
    [] k = "maxItems" -> x.t = "array" => Len(x.items) <= sc.n
    [] k = "uniqueItems" -> x.t = "array" => \A a, b \in DOMAIN x.items : a # b => x.items[a] # x.items[b]
    [] k = "properties" -> x.t = "object" => \A p \in x.props : p[1] = sc.s => Valid(sc.subs[1], p[2])
    [] k = "patternProperties" -> x.t = "object" => \A p \in x.props : MatchA(p[1]) => Valid(sc.subs[1], p[2])
    \* additionalProperties next to properties {a: {}} (n odd) and/or patternProperties {"^a": {}} (n >= 2)
    [] k = "additionalProperties" -> x.t = "object" =>
         \A p \in x.props : (~(sc.n % 2 = 1 /\ p[1] = "a") /\ ~(sc.n >= 2 /\ MatchA(p[1]))) => Valid(sc.subs[1], p[2])
    [] k = "propertyNames" -> x.t = "object" => \A p \in x.props :
         (sc.s = "pattern" => MatchA(p[1])) /\ (sc.s = "maxLength" => StrLen(p[1]) <= 1)
    [] k = "items" -> x.t = "array" => \A a \in DOMAIN x.items : Valid(sc.subs[1], x.items[a])
    [] k = "contains" -> x.t = "array" => \E a \in DOMAIN x.items : Valid(sc.subs[1], x.items[a])
    [] k = "allOf" -> ValidAll(sc.subs, i)
    [] k = "anyOf" -> \E j \in DOMAIN sc.subs : Valid(sc.subs[j], i)
    [] k = "oneOf" -> Cardinality({j \in DOMAIN sc.subs : Valid(sc.subs[j], i)}) = 1
    [] k = "not" -> ~Valid(sc.subs[1], i)
    [] k = "if" -> IF Valid(sc.subs[1], i) THEN Valid(sc.subs[2], i) ELSE Valid(sc.subs[3], i)
    [] k = "ref" -> Valid(sc.subs[1], i)         \* {"$defs": {"d": sub}, "$ref": "#/$defs/d"}
    [] k = "obj" -> ValidAll(sc.subs, i)         \* several keywords in one schema object

\* ---- the schema space ----
Leaves ==
  {Leaf("type", 0, t) : t \in {"null", "boolean", "integer", "number", "string", "array", "object"}}
  \cup {Leaf("const", 2, "#num"), Leaf("const", 0, "a"), Leaf("enum", 0, ""), Leaf("true", 0, ""), Leaf("false", 0, "")}
  \cup {Leaf("minimum", 2, ""), Leaf("maximum", 4, ""), Leaf("exclusiveMinimum", 2, ""), Leaf("exclusiveMaximum", 4, ""),
        Leaf("multipleOf", 4, ""), Leaf("minimum", 3, "")}
  \cup {Leaf("minLength", 2, ""), Leaf("maxLength", 2, ""), Leaf("pattern", 0, "^a")}
  \cup {Leaf("required", 0, "a"), Leaf("minProperties", 1, ""), Leaf("maxProperties", 1, "")}
  \cup {Leaf("minItems", 1, ""), Leaf("maxItems", 1, ""), Leaf("uniqueItems", 0, "")}
  \cup {Leaf("propertyNames", 0, "pattern"), Leaf("propertyNames", 0, "maxLength")}

Unary == {"properties", "patternProperties", "items", "contains", "not", "ref"}
Comp1(sub) ==
  {S(k, 0, IF k = "properties" THEN "a" ELSE "", <<x>>) : k \in Unary, x \in sub}
  \cup {S("additionalProperties", m, "", <<x>>) : m \in 0..3, x \in sub}
Comp2(sub) == {S(k, 0, "", <<x, y>>) : k \in {"allOf", "anyOf", "oneOf"}, x \in sub, y \in sub}
SmallSub == {Leaf("type", 0, "integer"), Leaf("type", 0, "string"), Leaf("minimum", 2, ""), Leaf("const", 0, "a"), Leaf("required", 0, "a")}
CompIf == {S("if", 0, "", <<x, y, z>>) : x \in Leaves, y \in SmallSub, z \in SmallSub}

\* combinator arms that are schema objects with a type and one more keyword (the usual way schemas are written)
TypedArms ==
  {S("obj", 0, "", <<Leaf("type", 0, "array"), x>>) :
     x \in {S("items", 0, "", <<Leaf("type", 0, "string")>>), Leaf("minItems", 1, ""), Leaf("maxItems", 1, ""),
            S("contains", 0, "", <<Leaf("const", 2, "#num")>>), Leaf("uniqueItems", 0, "")}}
  \cup {S("obj", 0, "", <<Leaf("type", 0, "object"), x>>) :
     x \in {Leaf("required", 0, "a"), S("properties", 0, "a", <<Leaf("type", 0, "integer")>>), Leaf("maxProperties", 1, ""),
            S("additionalProperties", 0, "", <<Leaf("type", 0, "string")>>)}}
  \cup {S("obj", 0, "", <<Leaf("type", 0, "number"), x>>) : x \in {Leaf("minimum", 2, ""), Leaf("multipleOf", 4, "")}}
CompTyped == {S(k, 0, "", <<x, y>>) : k \in {"allOf", "anyOf", "oneOf"}, x \in TypedArms, y \in TypedArms}

Level1 == Leaves \cup Comp1(Leaves) \cup Comp2(Leaves) \cup CompIf \cup CompTyped

VARIABLES sch, acc, lvl
vars == <<sch, acc, lvl>>

AccOf(ss) == {i \in 1..NI : ValidAll(ss, i)}

Init ==
  /\ sch \in {<<x>> : x \in Level1}
         \cup (IF Level >= 2
                 THEN {<<x, y>> : x \in RandomSubset(Sample, Level1), y \in RandomSubset(Sample, Leaves)}
                      \cup {<<x>> : x \in Comp1(RandomSubset(Sample, Comp1(Leaves) \cup Comp2(Leaves)))}
                      \cup {<<x>> : x \in Comp2(RandomSubset(Sample \div 4 + 2, Comp1(Leaves) \cup Comp2(Leaves)))}
                 ELSE {})
  /\ acc = AccOf(sch)
  \* lvl 1: the exhaustive first level (one keyword, combinators over leaves and typed arms); 2: sampled pairs / deeper nesting
  /\ lvl = IF Len(sch) = 1 /\ sch[1] \in Level1 THEN 1 ELSE 2
Next == UNCHANGED vars

\* ---- the validator's own sanity theorems ----
NotNot == Len(sch) = 1 => AccOf(<<S("not", 0, "", <<S("not", 0, "", <<sch[1]>>)>>)>>) = acc
AllOfIsConj == (Len(sch) = 1 /\ sch[1].k = "allOf") => acc = AccOf(<<sch[1].subs[1]>>) \cap AccOf(<<sch[1].subs[2]>>)
OneOfWithin == (Len(sch) = 1 /\ sch[1].k = "oneOf") => acc \subseteq AccOf(<<S("anyOf", 0, "", sch[1].subs)>>)
=============================================================================

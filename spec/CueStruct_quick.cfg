SPECIFICATION Spec
CONSTANTS MaxSchemas = 3
INVARIANTS OrderFree OpenNeverRestricts

SPECIFICATION FairSpec
CONSTANTS N = 3 AllowCycles = TRUE AllowLatent = TRUE AllowFail = TRUE
PROPERTY Terminates

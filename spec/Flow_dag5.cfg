SPECIFICATION Spec
CONSTANTS N = 5 AllowCycles = FALSE AllowLatent = FALSE AllowFail = TRUE
INVARIANTS TypeOK StartAfterDeps AtMostOnce LatentDiscipline NoDeadlock AtExit
PROPERTY FailureStops

------------------------------ MODULE CueArith ------------------------------
(***************************************************************************)
(* Arithmetic and comparison on numbers (doc/ref/spec.md, Arithmetic       *)
(* operators, Comparison operators, Integer/Decimal literals).             *)
(*                                                                         *)
(* Part "binop": operands are ints -3..3 and decimals at quarter steps     *)
(* (stored times 4).  For every operator the model gives the result kind   *)
(* (ResKind), whether the operation is an error (zero divisor, div/mod on  *)
(* non-integers) and the exact result as a fraction num/den (small         *)
(* integers): + - * exactly, / as an exact fraction which the harness      *)
(* rounds to 34 significant digits with big arithmetic, div/mod (Euclidean)*)
(* and quo/rem (truncated) by their defining identities, comparisons as a  *)
(* total order by value.                                                   *)
(*                                                                         *)
(* Part "symbolic": operands B + i for an unknown large B; results are     *)
(* polynomials in B with small coefficients, so exactness at 2^63, 2^64,   *)
(* 10^34, 10^400 is checked without large integers in TLC.                 *)
(*                                                                         *)
(* Part "shared": integer division applied several times to one shared     *)
(* operand B + i; every use must satisfy the defining identities.          *)
(*                                                                         *)
(* Part "literal": number spellings built structurally (base, digit        *)
(* groups with _, fraction, exponent, SI/IEC multiplier) with their value  *)
(* as mantissa * 10^e10 * 2^e2 / 10^fd.                                    *)
(***************************************************************************)
EXTENDS Integers, Sequences, FiniteSets, TLC

CONSTANT Part

\* ---------------------------------------------------------------- binop
Num(k, n) == [k |-> k, n |-> n]       \* value = n / 4 ; ints have n divisible by 4
Ints == {Num("int", 4 * i) : i \in -3..3}
Floats == {Num("float", i) : i \in -8..8}
Numbers == Ints \cup Floats
Ops == {"+", "-", "*", "/", "div", "mod", "quo", "rem", "==", "!=", "<", "<=", ">", ">="}

IntOnly(op) == op \in {"div", "mod", "quo", "rem"}
Cmp(op) == op \in {"==", "!=", "<", "<=", ">", ">="}
ResKind(op, a, b) ==
  IF Cmp(op) THEN "bool"
  ELSE IF op = "/" THEN "float"
  ELSE IF IntOnly(op) THEN "int"
  ELSE IF a.k = "int" /\ b.k = "int" THEN "int" ELSE "float"
IsErr(op, a, b) ==
  \/ (IntOnly(op) /\ (a.k # "int" \/ b.k # "int"))
  \/ (op \in {"/", "div", "mod", "quo", "rem"} /\ b.n = 0)

Abs(x) == IF x < 0 THEN -x ELSE x
Sgn(x) == IF x < 0 THEN -1 ELSE IF x > 0 THEN 1 ELSE 0
\* truncated and Euclidean division on integers
Quo(a, b) == Sgn(a) * Sgn(b) * (Abs(a) \div Abs(b))
Rem(a, b) == a - b * Quo(a, b)
EMod(a, b) == LET r == Rem(a, b) IN IF r < 0 THEN r + Abs(b) ELSE r
EDiv(a, b) == (a - EMod(a, b)) \div b

\* exact result as a fraction <<num, den>> (value = num / den); for comparisons 1 / 0
Result(op, a, b) ==
  LET x == a.n y == b.n IN
  CASE op = "+" -> <<x + y, 4>>
    [] op = "-" -> <<x - y, 4>>
    [] op = "*" -> <<x * y, 16>>
    [] op = "/" -> <<x, y>>
    [] op = "quo" -> <<Quo(x \div 4, y \div 4), 1>>
    [] op = "rem" -> <<Rem(x \div 4, y \div 4), 1>>
    [] op = "div" -> <<EDiv(x \div 4, y \div 4), 1>>
    [] op = "mod" -> <<EMod(x \div 4, y \div 4), 1>>
    [] op = "==" -> <<IF x = y THEN 1 ELSE 0, 1>>
    [] op = "!=" -> <<IF x # y THEN 1 ELSE 0, 1>>
    [] op = "<" -> <<IF x < y THEN 1 ELSE 0, 1>>
    [] op = "<=" -> <<IF x <= y THEN 1 ELSE 0, 1>>
    [] op = ">" -> <<IF x > y THEN 1 ELSE 0, 1>>
    [] op = ">=" -> <<IF x >= y THEN 1 ELSE 0, 1>>

\* ---------------------------------------------------------------- symbolic
\* B + i op B + j as a polynomial <<c2, c1, c0>> in B
SymOps == {"+", "-", "*", "<", "==", "div0"}
SymResult(op, i, j) ==
  CASE op = "+" -> <<0, 2, i + j>>
    [] op = "-" -> <<0, 0, i - j>>
    [] op = "*" -> <<1, i + j, i * j>>
    [] op = "<" -> <<0, 0, IF i < j THEN 1 ELSE 0>>
    [] op = "==" -> <<0, 0, IF i = j THEN 1 ELSE 0>>
    [] op = "div0" -> <<0, 0, 1>>          \* (B+i) div (B+i) = 1 , and (B+i) mod (B+i) = 0

\* ---------------------------------------------------------------- literals
Bases == {"dec", "hex", "oct", "bin"}
Mults == {"", "K", "M", "G", "T", "P", "Ki", "Mi", "Gi", "Ti", "Pi"}
MultE10(m) == CASE m = "K" -> 3 [] m = "M" -> 6 [] m = "G" -> 9 [] m = "T" -> 12 [] m = "P" -> 15 [] OTHER -> 0
MultE2(m) == CASE m = "Ki" -> 10 [] m = "Mi" -> 20 [] m = "Gi" -> 30 [] m = "Ti" -> 40 [] m = "Pi" -> 50 [] OTHER -> 0
\* a spelling: integer digits (value ip, given as a small number and its digit string chosen by the harness),
\* optional fraction of fd digits (value fp), optional decimal exponent, multiplier, underscore grouping
Lit == [base : Bases, ip : {0, 1, 7, 12, 255, 1000}, us : BOOLEAN,
        frac : {"none", "5", "25", "05"}, exp : {"none", "e2", "E+2", "e-2", "e0"}, mult : Mults]
LitOK(l) ==
  /\ (l.base # "dec" => l.frac = "none" /\ l.exp = "none" /\ l.mult = "")
  /\ (l.mult # "" => l.exp = "none")                     \* a multiplier follows digits, not an exponent
  /\ (l.us => l.ip >= 1000)                              \* 1_000 style grouping needs enough digits
FracNum(f) == CASE f = "5" -> 5 [] f = "25" -> 25 [] f = "05" -> 5 [] OTHER -> 0
FracDigits(f) == CASE f = "5" -> 1 [] f = "25" -> 2 [] f = "05" -> 2 [] OTHER -> 0
ExpVal(e) == CASE e \in {"e2", "E+2"} -> 2 [] e = "e-2" -> -2 [] OTHER -> 0
\* value = (ip * 10^fd + fp) * 10^(e10 - fd) * 2^e2
LitValue(l) == [mant |-> l.ip * (IF FracDigits(l.frac) = 2 THEN 100 ELSE IF FracDigits(l.frac) = 1 THEN 10 ELSE 1) + FracNum(l.frac),
                e10 |-> ExpVal(l.exp) + MultE10(l.mult) - FracDigits(l.frac),
                e2 |-> MultE2(l.mult)]
\* int literal unless it has a fraction or an exponent; a multiplier keeps an integral value an int
LitKind(l) == IF l.frac = "none" /\ l.exp = "none" THEN "int" ELSE "float"

\* ---------------------------------------------------------------- strings and bytes
\* Comparison operators on strings and bytes: both are compared as byte sequences (for strings: their
\* UTF-8 encoding); a string and a bytes value do not compare.  Values are sequences of byte values.
ByteSeqs == << <<>>, <<97>>, <<97, 98>>, <<98>>, <<195, 169>>, <<239, 191, 189>>, <<240, 159, 152, 128>>,
               <<254>>, <<255>>, <<255, 97>>, <<192, 128>> >>
ValidUTF8(i) == i <= 7                      \* the first seven are valid UTF-8 (may be strings as well as bytes)
RECURSIVE LexLess(_, _, _)
LexLess(x, y, i) ==
  IF i > Len(y) THEN FALSE
  ELSE IF i > Len(x) THEN TRUE
  ELSE IF x[i] < y[i] THEN TRUE
  ELSE IF x[i] > y[i] THEN FALSE
  ELSE LexLess(x, y, i + 1)
StrVal(k, i) == [k |-> k, n |-> i, bytes |-> ByteSeqs[i]]          \* k: "string" | "bytes", n: index into ByteSeqs
StrVals == {StrVal("bytes", i) : i \in 1..Len(ByteSeqs)} \cup {StrVal("string", i) : i \in {j \in 1..Len(ByteSeqs) : ValidUTF8(j)}}
StrCmp(o, x, y) ==
  LET lt == LexLess(ByteSeqs[x.n], ByteSeqs[y.n], 1)
      gt == LexLess(ByteSeqs[y.n], ByteSeqs[x.n], 1)
      eq == ~lt /\ ~gt
  IN CASE o = "<" -> lt [] o = "<=" -> lt \/ eq [] o = ">" -> gt [] o = ">=" -> gt \/ eq [] o = "==" -> eq [] o = "!=" -> ~eq

VARIABLES op, a, b, kind, err, res
vars == <<op, a, b, kind, err, res>>
Zero == Num("int", 0)
Init ==
  CASE Part = "binop" ->
         /\ op \in Ops /\ a \in Numbers /\ b \in Numbers
         /\ kind = ResKind(op, a, b) /\ err = IsErr(op, a, b)
         /\ res = IF IsErr(op, a, b) THEN <<0, 1>> ELSE Result(op, a, b)
    [] Part = "symbolic" ->
         /\ op \in SymOps /\ a \in {Num("int", i) : i \in -2..2} /\ b \in {Num("int", i) : i \in -2..2}
         /\ kind = "int" /\ err = FALSE /\ res = SymResult(op, a.n, b.n)
    \* integer division on a shared operand B + i (a field referenced several times): op is the sequence of
    \* uses, a.n = i, b.n = the small divisor; each use must satisfy the defining identities by itself
    [] Part = "shared" ->
         /\ op \in [1..3 -> {"div", "mod", "quo", "rem"}] /\ a \in {Num("int", i) : i \in -1..1} /\ b \in {Num("int", j) : j \in {-7, -2, 3, 7}}
         /\ kind = "int" /\ err = FALSE /\ res = <<0, 1>>
    [] Part = "strcmp" ->
         /\ op \in {"<", "<=", ">", ">=", "==", "!="} /\ a \in StrVals /\ b \in StrVals
         /\ kind = "bool"
         \* a string and a bytes value: == and != answer false / true, the ordering operators are an error
         /\ err = (a.k # b.k /\ op \notin {"==", "!="})
         /\ res = IF a.k # b.k THEN <<IF op = "!=" THEN 1 ELSE 0, 1>> ELSE <<IF StrCmp(op, a, b) THEN 1 ELSE 0, 1>>
    [] Part = "literal" ->
         /\ op = "lit" /\ a \in {l \in Lit : LitOK(l)} /\ b = Zero
         /\ kind = LitKind(a) /\ err = FALSE /\ res = LitValue(a)
Next == UNCHANGED vars

\* ---- the model's own theorems ----
DivisionIdentities ==
  (Part = "binop" /\ ~err /\ op \in {"div", "mod", "quo", "rem"}) =>
     LET x == a.n \div 4 y == b.n \div 4 IN
     /\ x = y * EDiv(x, y) + EMod(x, y) /\ EMod(x, y) >= 0 /\ EMod(x, y) < Abs(y)
     /\ x = y * Quo(x, y) + Rem(x, y) /\ Abs(Rem(x, y)) < Abs(y) /\ (Rem(x, y) = 0 \/ Sgn(Rem(x, y)) = Sgn(x))
OrderTotal ==
  (Part = "binop" /\ op = "<") =>
     (IF a.n < b.n THEN 1 ELSE 0) + (IF b.n < a.n THEN 1 ELSE 0) + (IF a.n = b.n THEN 1 ELSE 0) = 1
=============================================================================

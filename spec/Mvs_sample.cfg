SPECIFICATION Spec
CONSTANTS M = 5 V = 3 Sample = 300 OneVersion = FALSE OlderMain = TRUE
INVARIANTS NoPanic SelectedIsMaxSeen Confluent Sufficient Minimal PrunedBelowFull

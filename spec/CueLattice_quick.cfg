SPECIFICATION Spec
CONSTANT MaxN = 3
INVARIANT DenIsIntersection OrderIndependent
PROPERTY Monotone

SPECIFICATION FairSpec
CONSTANTS W = 2 I = 3 Lazy = FALSE
PROPERTY AllExit

------------------------------ MODULE CueTokens ------------------------------
(***************************************************************************)
(* Token soups for the parser: every sequence of up to L tokens of the     *)
(* alphabet below (the harness joins them with seeded whitespace).  The    *)
(* parser must return a tree or positioned errors for each, never panic,   *)
(* with every position inside the input, children inside parents and       *)
(* siblings in order.                                                      *)
(***************************************************************************)
EXTENDS Integers, Sequences, TLC
CONSTANTS L
Toks == <<"a", "#D", "_h", "1", "\"s\"", "{", "}", "[", "]", "(", ")", ":", ",", "&", "|", "*", "?", "!", "=",
          "...", "\n", "// c\n", "for", "if", "let", "in", "import", "package", ".", "<", "=~", "-", "\\(", "'b'", "1.5e3", "_|_">>
VARIABLE ts
Init == ts \in UNION {[1..m -> 1..Len(Toks)] : m \in 1..L}
Next == UNCHANGED ts
=============================================================================

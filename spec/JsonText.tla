------------------------------ MODULE JsonText ------------------------------
(***************************************************************************)
(* The text of JSON scalars (RFC 8259 sections 6 and 7) as a grammar over  *)
(* atoms, with the denotation of every production.                         *)
(*                                                                         *)
(* A string body is a sequence of atoms; an atom is an unescaped character,*)
(* a two-character escape, a \uXXXX escape (upper or lower case hex) of a  *)
(* basic-plane scalar, an escaped surrogate pair, or one of the spellings  *)
(* the grammar does not have.  Valid(s) says whether the text is JSON and  *)
(* Den(s) gives the sequence of code points it denotes.  Lone surrogate    *)
(* escapes are grammatical but denote no Unicode string: "any" (a decoder  *)
(* may reject them or substitute; it must not crash).                      *)
(*                                                                         *)
(* A number is sign, integer part, optional fraction, optional exponent;   *)
(* its value is  mant * 10^exp10  and it is an integer number exactly when *)
(* it has neither fraction nor exponent.  The malformed spellings (leading *)
(* zero, bare dot, plus sign, dangling exponent) are not JSON.             *)
(*                                                                         *)
(* Every state is one text; the harness renders it (as a value, as a list  *)
(* element and as an object key), and CUE's JSON decoder must accept it    *)
(* exactly when Valid, with the denotation Den - compared also with Go's   *)
(* encoding/json as an independent reader.                                 *)
(***************************************************************************)
EXTENDS Integers, Sequences, FiniteSets, TLC

CONSTANTS MaxAtoms, Part   \* Part = "string" | "number"

\* ---- strings ----
A(k, t, cp) == [k |-> k, t |-> t, cp |-> cp]
\* kind: "ok" grammatical with denotation cp; "lone" grammatical, no denotation; "bad" not JSON
Atoms == <<
  A("ok", "a", 97), A("ok", " ", 32), A("ok", "RAW_EACUTE", 233), A("ok", "RAW_EMOJI", 128512), A("ok", "/", 47), A("ok", "'", 39),
  A("ok", "RAW_DEL", 127), A("ok", "RAW_2028", 8232), A("ok", "RAW_FFFD", 65533), A("ok", "#", 35), A("ok", "(", 40),
  A("ok", "\\\"", 34), A("ok", "\\\\", 92), A("ok", "\\/", 47), A("ok", "\\b", 8), A("ok", "\\f", 12), A("ok", "\\n", 10), A("ok", "\\r", 13), A("ok", "\\t", 9),
  A("ok", "\\u0000", 0), A("ok", "\\u001f", 31), A("ok", "\\u001F", 31), A("ok", "\\u0020", 32), A("ok", "\\u0022", 34), A("ok", "\\u005c", 92), A("ok", "\\u005C", 92),
  A("ok", "\\u007f", 127), A("ok", "\\u00e9", 233), A("ok", "\\u00E9", 233), A("ok", "\\ud7ff", 55295), A("ok", "\\ue000", 57344),
  A("ok", "\\ufffd", 65533), A("ok", "\\uFFFF", 65535), A("ok", "\\ufeff", 65279), A("ok", "\\u2028", 8232), A("ok", "\\u0028", 40), A("ok", "\\u0023", 35), A("ok", "\\u0301", 769), A("ok", "RAW_0301", 769),
  A("ok", "\\ud800\\udc00", 65536), A("ok", "\\uD800\\uDFFF", 66559), A("ok", "\\ud83d\\udc00", 128000), A("ok", "\\ud83d\\ude00", 128512),
  A("ok", "\\uD83D\\uDFFF", 129023), A("ok", "\\udbff\\udc00", 1113088), A("ok", "\\uDBFF\\uDFFF", 1114111), A("ok", "\\ud834\\udd1e", 119070),
  A("lone", "\\ud800", 0), A("lone", "\\udc00", 0), A("lone", "\\udfff", 0), A("lone", "\\udbff", 0),
  A("bad", "\\x41", 0), A("bad", "\\u12", 0), A("bad", "\\a", 0), A("bad", "RAW_CTRL1", 0), A("bad", "RAW_LF", 0), A("bad", "RAW_TAB", 0),
  A("bad", "\\'", 0), A("bad", "\\U0041", 0), A("bad", "\\u00G1", 0), A("bad", "\\", 0), A("bad", "\"", 0)
>>
NA == Len(Atoms)

\* a lone high surrogate followed by a lone low one is a pair: never generated as two atoms
IsHi(i) == Atoms[i].t \in {"\\ud800", "\\udbff"}
IsLo(i) == Atoms[i].t \in {"\\udc00", "\\udfff"}
\* truncated escapes are only truncated when the closing quote follows
OnlyLast(i) == Atoms[i].t \in {"\\", "\\u12"}
WellFormed(s) == \A i \in 1..(Len(s) - 1) : ~(IsHi(s[i]) /\ IsLo(s[i + 1])) /\ ~OnlyLast(s[i])

StrVerdict(s) ==
  IF \E i \in DOMAIN s : Atoms[s[i]].k = "bad" THEN "invalid"
  ELSE IF \E i \in DOMAIN s : Atoms[s[i]].k = "lone" THEN "any"
  ELSE "valid"
StrDen(s) == [i \in DOMAIN s |-> Atoms[s[i]].cp]

\* ---- numbers ----
Signs == <<"", "-">>
IntParts == <<"0", "1", "12", "9007199254740993">>
Fracs == <<"", ".0", ".5", ".25", ".000", ".10">>
Exps == <<"", "e0", "E+2", "e-2", "e+400", "E5", "e-0">>
BadNums == <<"01", "1.", ".5", "+1", "1e", "1e+", "-", "--1", "0x10", "1_000", "1.e2", "Infinity", "NaN", "1 0", "00", "-01", "1E", "0.1.2">>

\* value = mant * 10^e10 (mantissa as a pair: digits of the integer part and of the fraction are concatenated by the harness)
FracDigits(f) == CASE f = "" -> 0 [] f \in {".0", ".5"} -> 1 [] f \in {".25", ".10"} -> 2 [] f = ".000" -> 3
ExpVal(e) == CASE e \in {"", "e0", "e-0"} -> 0 [] e = "E+2" -> 2 [] e = "e-2" -> -2 [] e = "e+400" -> 400 [] e = "E5" -> 5
NumIsInt(f, e) == f = "" /\ e = ""
NumE10(f, e) == ExpVal(e) - FracDigits(f)

VARIABLES txt, verdict, den
vars == <<txt, verdict, den>>

Strs == UNION {[1..n -> 1..NA] : n \in 0..MaxAtoms}
Init ==
  CASE Part = "string" ->
         /\ txt \in {s \in Strs : WellFormed(s)}
         /\ verdict = StrVerdict(txt)
         /\ den = IF StrVerdict(txt) = "valid" THEN StrDen(txt) ELSE <<>>
    [] Part = "number" ->
         \/ /\ txt \in [sign : 1..2, ip : 1..Len(IntParts), frac : 1..Len(Fracs), exp : 1..Len(Exps)]
            /\ verdict = "valid"
            /\ den = <<IF NumIsInt(Fracs[txt.frac], Exps[txt.exp]) THEN 1 ELSE 0, NumE10(Fracs[txt.frac], Exps[txt.exp])>>
         \/ /\ txt \in [bad : 1..Len(BadNums)]
            /\ verdict = "invalid"
            /\ den = <<>>
Next == UNCHANGED vars

\* the model's own sanity: a text with a bad atom is never valid; denotations are scalar values
DenOK == (Part = "string" /\ verdict = "valid") =>
            \A i \in DOMAIN den : den[i] >= 0 /\ den[i] <= 1114111 /\ ~(den[i] >= 55296 /\ den[i] <= 57343)

TablesInit == txt = [atoms |-> Atoms, signs |-> Signs, ints |-> IntParts, fracs |-> Fracs, exps |-> Exps, bad |-> BadNums]
              /\ verdict = "" /\ den = <<>>
=============================================================================

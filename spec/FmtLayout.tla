------------------------------ MODULE FmtLayout ------------------------------
(***************************************************************************)
(* Source files as declaration skeletons times layout and comment slots.   *)
(*                                                                         *)
(* A file is a sequence of up to MaxDecls declaration kinds (field, struct *)
(* value, nested labels, list, embedding, let, attribute, comprehensions,  *)
(* call with multi-line arguments, optional / required fields, definition, *)
(* multi-line string, operator chain with redundant parentheses, pattern   *)
(* constraint and ellipsis, list comprehension) rendered under a layout    *)
(* (member separator, spaces after colons and around operators, redundant  *)
(* parentheses, blank lines between declarations, trailing comma in lists) *)
(* with comments in a set of slots (doc, end of line, inside braces,       *)
(* before the closing bracket).                                            *)
(*                                                                         *)
(* The property as a protocol:  F --Format--> F1 --Format--> F2 with       *)
(*    Tree(Parse(F1)) = Tree(Parse(F))    same syntax tree, comments       *)
(*                                         attached in the same place      *)
(*    F2 = F1                              formatting is idempotent        *)
(*    Format never fails on a file that parses                             *)
(***************************************************************************)
EXTENDS Integers, Sequences, FiniteSets, TLC, Randomization

CONSTANTS MaxDecls, Sample, NFiles

Kinds == <<"field", "structfield", "chain", "list", "embed", "let", "attr", "forcomp", "ifcomp", "call",
           "optreq", "def", "mlstring", "binchain", "pattern", "listcomp", "emptystruct", "nestedlist",
           "callml", "selidx", "interp", "alias", "ellipsis", "dynfield", "unary", "disjml", "mlplain", "mlbytes", "chaininline">>
Seps == <<"comma-space", "newline", "comma-newline">>
Spaces == <<"one", "none", "many">>
Slots == {"doc", "line", "in", "end", "between", "colon", "elem", "op"}

\* hug: the closing bracket of a multi-line list / argument list stays on the line of the last element
Layout == [sep : 1..3, colon : 1..3, op : 1..3, parens : BOOLEAN, blank : 0..2, trail : BOOLEAN, indent : {"tab", "spaces", "none"}, hug : BOOLEAN]

VARIABLES decls, layout, comments
vars == <<decls, layout, comments>>

Files == UNION {[1..n -> 1..Len(Kinds)] : n \in 1..MaxDecls}
Init ==
  /\ decls \in Files
  /\ layout \in (IF Sample = 0 THEN Layout ELSE RandomSubset(Sample, Layout))
  /\ comments \in {S \in SUBSET Slots : Cardinality(S) <= 2}
Next == UNCHANGED vars

\* ---- the repository's own CUE sources as seeds, with whitespace / comment mutations ----
\* A mutant is (file, operation, place): the operation is applied at the token boundary that lies
\* place/20 of the way through the file.  Every mutant that still parses is an input like any other.
CorpusOps == <<"none", "newline", "blank-line", "line-comment", "eol-comment", "strip-space", "comma", "tab", "doc-comment-before", "paren">>
Mutants == [file : 1..NFiles, op : 1..Len(CorpusOps), at : 0..19]
CorpusInit ==
  /\ decls \in (IF Sample = 0 THEN Mutants ELSE RandomSubset(Sample, Mutants) \cup [file : 1..NFiles, op : {1}, at : {0}])
  /\ layout = 0 /\ comments = {}

TablesInit == decls = [kinds |-> Kinds, seps |-> Seps, spaces |-> Spaces, ops |-> CorpusOps] /\ layout = 0 /\ comments = {}
=============================================================================

------------------------------ MODULE FmtLayout ------------------------------
(***************************************************************************)
(* Source files as declaration skeletons times layout and comment slots.   *)
(*                                                                         *)
(* A file is a sequence of up to MaxDecls declaration kinds (field, struct *)
(* value, nested labels, list, embedding, let, attribute, comprehensions,  *)
(* call with multi-line arguments, optional / required fields, definition, *)
(* multi-line string, operator chain with redundant parentheses, pattern   *)
(* constraint and ellipsis, list comprehension) rendered under a layout    *)
(* (member separator, spaces after colons and around operators, redundant  *)
(* parentheses, blank lines between declarations, trailing comma in lists) *)
(* with comments in a set of slots (doc, end of line, inside braces,       *)
(* before the closing bracket).                                            *)
(*                                                                         *)
(* The property as a protocol:  F --Format--> F1 --Format--> F2 with       *)
(*    Tree(Parse(F1)) = Tree(Parse(F))    same syntax tree, comments       *)
(*                                         attached in the same place      *)
(*    F2 = F1                              formatting is idempotent        *)
(*    Format never fails on a file that parses                             *)
(***************************************************************************)
EXTENDS Integers, Sequences, FiniteSets, TLC, Randomization

CONSTANTS MaxDecls, Sample

Kinds == <<"field", "structfield", "chain", "list", "embed", "let", "attr", "forcomp", "ifcomp", "call",
           "optreq", "def", "mlstring", "binchain", "pattern", "listcomp", "emptystruct", "nestedlist",
           "callml", "selidx", "interp", "alias", "ellipsis", "dynfield", "unary", "disjml", "mlplain", "mlbytes">>
Seps == <<"comma-space", "newline", "comma-newline">>
Spaces == <<"one", "none", "many">>
Slots == {"doc", "line", "in", "end", "between", "colon", "elem", "op"}

Layout == [sep : 1..3, colon : 1..3, op : 1..3, parens : BOOLEAN, blank : 0..2, trail : BOOLEAN, indent : {"tab", "spaces", "none"}]

VARIABLES decls, layout, comments
vars == <<decls, layout, comments>>

Files == UNION {[1..n -> 1..Len(Kinds)] : n \in 1..MaxDecls}
Init ==
  /\ decls \in Files
  /\ layout \in (IF Sample = 0 THEN Layout ELSE RandomSubset(Sample, Layout))
  /\ comments \in {S \in SUBSET Slots : Cardinality(S) <= 2}
Next == UNCHANGED vars

TablesInit == decls = [kinds |-> Kinds, seps |-> Seps, spaces |-> Spaces] /\ layout = 0 /\ comments = {}
=============================================================================

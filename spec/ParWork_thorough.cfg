SPECIFICATION Spec
CONSTANTS W = 3 I = 3 Lazy = FALSE
INVARIANTS AtMostOnce WaitingCount ExitOnlyWhenDrained Conservation NoLostWakeup MutexOK

INIT Init
NEXT Next
INVARIANTS Trichotomy Transitive PreBelowRelease

SPECIFICATION Spec
CONSTANTS NP = 2 TPP = 2 NV = 1 NF = 2 MaxCrashes = 2 MaxFaults = 1 MaxOps = 4
INVARIANTS TypeOK NeverServePartial Stable ArtefactsAtomic WritersHoldLock CleanOnlyStale OneDownloadPerProcess MarkerDiscipline

------------------------------ MODULE CueDisj ------------------------------
(***************************************************************************)
(* Disjunctions and defaults as value/default pairs (doc/ref/spec.md,      *)
(* "Default values"): rules U0-U2 for &, D0-D2 for |, M0-M1 for marks, on  *)
(* top-level marks only.                                                   *)
(*                                                                         *)
(* A pair is [V, hasD, D]: the set of surviving disjuncts, whether any     *)
(* operand carried a default, and the surviving default disjuncts.  Failed *)
(* (bottom) disjuncts are dropped and equal disjuncts are one element of   *)
(* the set.  Leaf values are scalars (described by the probe atoms they    *)
(* admit, plus whether they are a concrete atom) and open structs over the *)
(* labels a, b whose fields are scalars.                                   *)
(*                                                                         *)
(* Every state is one expression D1 & ... & Dk with its pair, its          *)
(* resolution and the resolution of (expression & probe) for every probe;  *)
(* the harness compares all of them with the real evaluator.               *)
(***************************************************************************)
EXTENDS Integers, Sequences, FiniteSets, TLC, Randomization

CONSTANTS MaxConj,   \* number of &-operands
          MaxAlt,    \* alternatives per disjunction
          Sample,    \* 0 = all expressions; k = seeded sample of about k disjunctions per operand position
          Seed       \* seed of the samples

\* ---- scalar values: which probe atoms they admit; conc = a concrete atom ----
\* probe atoms: 1, 2, 3 (ints), 25 (= 2.5, float), "a", "b" as strings "s_a", "s_b"
SProbes == {"1", "2", "3", "2.5", "sa", "sb"}
Sc(den, conc) == [k |-> "sc", den |-> den, conc |-> conc, fa |-> "-", fb |-> "-"]
BotV == [k |-> "bot", den |-> {}, conc |-> FALSE, fa |-> "-", fb |-> "-"]

ScalarByName(n) ==
  CASE n = "1" -> Sc({"1"}, TRUE)
    [] n = "2" -> Sc({"2"}, TRUE)
    [] n = "sa" -> Sc({"sa"}, TRUE)
    [] n = "int" -> Sc({"1", "2", "3"}, FALSE)
    [] n = "string" -> Sc({"sa", "sb"}, FALSE)
    [] n = "gt1" -> Sc({"2", "3", "2.5"}, FALSE)

\* field values inside structs: "-" absent, or the name of a scalar among 1, 2, int
FieldMeet(x, y) ==
  IF x = "-" THEN y ELSE IF y = "-" THEN x
  ELSE IF x = y THEN x
  ELSE IF x = "int" /\ y \in {"1", "2"} THEN y
  ELSE IF y = "int" /\ x \in {"1", "2"} THEN x
  ELSE "bot"
St(fa, fb) == [k |-> "st", den |-> {}, conc |-> (fa # "int" /\ fb # "int"), fa |-> fa, fb |-> fb]

Meet(x, y) ==
  IF x.k = "bot" \/ y.k = "bot" \/ x.k # y.k THEN BotV
  ELSE IF x.k = "sc"
    THEN LET d == x.den \cap y.den IN IF d = {} THEN BotV ELSE Sc(d, x.conc \/ y.conc)
    ELSE LET a == FieldMeet(x.fa, y.fa)
             b == FieldMeet(x.fb, y.fb)
         IN IF a = "bot" \/ b = "bot" THEN BotV ELSE St(a, b)

\* ---- leaf alphabet ----
LeafNames == <<"1", "2", "sa", "int", "string", "gt1", "{a:1}", "{a:2}", "{a:int}", "{b:1}">>
LeafValue(i) ==
  CASE i <= 6 -> ScalarByName(LeafNames[i])
    [] i = 7 -> St("1", "-")
    [] i = 8 -> St("2", "-")
    [] i = 9 -> St("int", "-")
    [] i = 10 -> St("-", "1")
NLeaf == Len(LeafNames)

\* ---- pairs ----
\* An expression is a conjunction of disjunctions; alts[i] is the sequence
\* of alternatives [v, mark] of operand i.  Unification distributes over
\* the alternatives (U0-U2 applied to all operands at once, so the result
\* does not depend on how the conjunction is grouped): a combination picks
\* one alternative per operand.
\*   V = the non-failing combinations (D0, U0);
\*   a marked alternative is *eliminated* if every combination containing
\*     it fails; an operand all of whose marked alternatives are eliminated
\*     counts as unmarked ("considered as if they originated from an
\*     unmarked disjunction");
\*   D = the non-failing combinations that pick a marked alternative from
\*     every operand that still has one (M1, D1/D2, U1/U2).
Pr(V, hasD, D) == [V |-> V, hasD |-> hasD, D |-> D]

Combos(alts) == {c \in [DOMAIN alts -> 1..3] : \A i \in DOMAIN alts : c[i] <= Len(alts[i])}
RECURSIVE MeetAll(_, _, _)
MeetAll(alts, c, i) == IF i = 0 THEN [k |-> "top"] ELSE
   LET rest == MeetAll(alts, c, i - 1) x == alts[i][c[i]].v IN
   IF rest.k = "top" THEN x ELSE Meet(rest, x)
ValueOf(alts, c) == MeetAll(alts, c, Len(alts))

PairOfAlts(alts) ==
  LET C == {c \in Combos(alts) : ValueOf(alts, c) # BotV}
      HasLive(i) == \E c \in C : alts[i][c[i]].mark
      DC == {c \in C : \A i \in DOMAIN alts : HasLive(i) => alts[i][c[i]].mark}
      anyD == \E i \in DOMAIN alts : HasLive(i)
  IN Pr({ValueOf(alts, c) : c \in C}, anyD, IF anyD THEN {ValueOf(alts, c) : c \in DC} ELSE {})

AltsOf(d) == [j \in DOMAIN d |-> [v |-> LeafValue(d[j].leaf), mark |-> d[j].mark]]
PairOf(ds) == PairOfAlts([i \in DOMAIN ds |-> AltsOf(ds[i])])

\* The same rules applied two operands at a time (U0-U2 literally, with the
\* elimination sentence applied at each step).  For three or more operands
\* whose defaults conflict pairwise the outcome of this reading depends on
\* the grouping, i.e. the specification text does not determine a result;
\* such expressions are flagged (clear = FALSE) and left out of the claim.
Alive(D, W) == {d \in D : \E y \in W : Meet(d, y) # BotV}
AndPair(p, q) ==
  LET pd == Alive(p.D, q.V)
      qd == Alive(q.D, p.V)
      ph == p.hasD /\ pd # {}
      qh == q.hasD /\ qd # {}
      hd == ph \/ qh
  IN Pr({Meet(x, y) : x \in p.V, y \in q.V} \ {BotV}, hd,
        IF hd THEN {Meet(x, y) : x \in (IF ph THEN pd ELSE p.V), y \in (IF qh THEN qd ELSE q.V)} \ {BotV}
              ELSE {})
OnePair(a) == PairOfAlts(<<a>>)
RECURSIVE FoldSeq(_, _)
FoldSeq(as, j) == IF j = 1 THEN OnePair(as[1]) ELSE AndPair(FoldSeq(as, j - 1), OnePair(as[j]))
Perms(n) == {f \in [1..n -> 1..n] : \A i, j \in 1..n : f[i] = f[j] => i = j}

\* what the expression resolves to when a concrete value is required
Resolve(p) ==
  LET S == IF p.D # {} THEN p.D ELSE p.V IN
  IF p.V = {} THEN [o |-> "bottom", v |-> BotV]
  ELSE IF Cardinality(S) = 1 THEN [o |-> "unique", v |-> CHOOSE x \in S : TRUE]
  ELSE [o |-> "ambiguous", v |-> BotV]

\* ---- probes: concrete data unified with the expression ----
ProbeNames == <<"1", "2", "3", "sa", "{a:1}", "{a:2}", "{b:1}", "{a:1,b:1}">>
ProbeValue(i) ==
  CASE i = 1 -> Sc({"1"}, TRUE) [] i = 2 -> Sc({"2"}, TRUE) [] i = 3 -> Sc({"3"}, TRUE)
    [] i = 4 -> Sc({"sa"}, TRUE)
    [] i = 5 -> St("1", "-") [] i = 6 -> St("2", "-") [] i = 7 -> St("-", "1") [] i = 8 -> St("1", "1")
\* ---- generation ----
Alt == [leaf : 1..NLeaf, mark : BOOLEAN]
\* a preference mark is only allowed on an operand of | (a lone *x does not parse)
Disjs == {<<[leaf |-> l, mark |-> FALSE]>> : l \in 1..NLeaf} \cup UNION {[1..n -> Alt] : n \in 2..MaxAlt}

\* directed three-alternative disjunctions over 1, 2, int with the first alternative marked: the harness also
\* writes every three-alternative disjunction with nested parentheses, ((a | b) | c) and (a | (b | c)), which
\* by D0-D2 denote the same pair as the flat form
Directed3 == IF MaxAlt >= 3
               THEN {<<[leaf |-> a, mark |-> TRUE], [leaf |-> b, mark |-> FALSE], [leaf |-> c, mark |-> FALSE]>> :
                       a \in {1, 2}, b \in {1, 2}, c \in {1, 2, 4}} \cup
                    {<<[leaf |-> a, mark |-> FALSE], [leaf |-> b, mark |-> TRUE], [leaf |-> c, mark |-> FALSE]>> :
                       a \in {1, 2}, b \in {1, 2}, c \in {1, 2, 4}}
               ELSE {}
Directed2 == {<<[leaf |-> a, mark |-> TRUE], [leaf |-> b, mark |-> FALSE]>> : a \in {1, 2, 4}, b \in {1, 2, 4}}

\* One seeded sample per operand position.  The samples are computed by a hash of the disjunction and
\* the seed instead of RandomSubset: TLC evaluates RandomSubset anew in every worker thread, so a run
\* with several workers would not be reproducible from its seed.
RECURSIVE HashAlts(_, _, _)
HashAlts(d, j, acc) == IF j > Len(d) THEN acc
                       ELSE HashAlts(d, j + 1, (acc * 31 + d[j].leaf * 7 + (IF d[j].mark THEN 3 ELSE 0) + j) % 104729)
Pick(pos) == LET keep == (Cardinality(Disjs) \div Sample) + 1 IN
             {d \in Disjs : (HashAlts(d, 1, Seed * 13 + pos * 101) % keep) = 0}
Sample1 == IF Sample = 0 THEN {} ELSE Pick(1)
Sample2 == IF Sample = 0 THEN {} ELSE Pick(2)
Sample3 == IF Sample = 0 THEN {} ELSE Pick(3)

VARIABLES ds, res, pres
vars == <<ds, res, pres>>

\* compact text of a value, for the harness
Code(v) ==
  IF v.k = "bot" THEN "bot"
  ELSE IF v.k = "sc" THEN (IF v.conc THEN "atom:" ELSE "sc:") \o ToString(v.den)
  ELSE "st:" \o v.fa \o "," \o v.fb
\* outcome of the n-ary reading, and whether every pairwise grouping/order agrees with it
OutcomeOf(as) ==
  LET r == Resolve(PairOfAlts(as))
      n == Len(as)
      agree == \A f \in Perms(n) : Resolve(FoldSeq([i \in 1..n |-> as[f[i]]], n)) = r
      marked == {i \in 1..n : \E j \in DOMAIN as[i] : as[i][j].mark}
      \* With three or more *marked* operands the specification's elimination
      \* sentence ("this formulation should be worked out more") does not fix
      \* at which step a default counts as eliminated; the claim covers up to
      \* two marked operands (plus unmarked ones), where every reading agrees.
  IN [o |-> r.o, c |-> Code(r.v), clear |-> Cardinality(marked) <= 2 /\ agree]
None == [o |-> "none", c |-> "bot", clear |-> TRUE]
AllAlts(dd) == [i \in DOMAIN dd |-> AltsOf(dd[i])]
ProbeAlts(dd, i) == [j \in 1..(Len(dd) + 1) |->
                       IF j <= Len(dd) THEN AltsOf(dd[j]) ELSE <<[v |-> ProbeValue(i), mark |-> FALSE]>>]

Init == ds = <<>> /\ res = None /\ pres = [i \in DOMAIN ProbeNames |-> None]

Next ==
  /\ Len(ds) < MaxConj
  /\ \E d \in (IF Sample = 0 THEN Disjs
              ELSE IF Len(ds) = 0 THEN Sample1 \cup Directed3 ELSE IF Len(ds) = 1 THEN Sample2 \cup Directed2 ELSE Sample3) :
       LET nd == Append(ds, d) IN
       /\ ds' = nd /\ res' = OutcomeOf(AllAlts(nd))
       /\ pres' = [i \in DOMAIN ProbeNames |-> OutcomeOf(ProbeAlts(nd, i))]

Spec == Init /\ [][Next]_vars
pair == IF ds = <<>> THEN Pr({}, FALSE, {}) ELSE PairOf(ds)

\* ---- the model's own theorems ----
\* & is commutative (and, being n-ary, associative) on pairs
Swap2 == Len(ds) = 2 => PairOf(<<ds[2], ds[1]>>) = pair
Rot3 == Len(ds) = 3 => PairOf(<<ds[2], ds[3], ds[1]>>) = pair
\* unifying with itself changes nothing when the disjuncts are concrete atoms
Idem == (Len(ds) = 1 /\ \A x \in pair.V : x.k = "sc" /\ x.conc) => PairOf(<<ds[1], ds[1]>>).V = pair.V
\* duplicate disjuncts never change the outcome
DupNoChange == Len(ds) >= 1 =>
   LET d1 == ds[1] IN PairOf(<<d1 \o d1>> \o SubSeq(ds, 2, Len(ds))) = pair
\* the default is always one of the values
DefaultWithinValue == pair.D \subseteq pair.V
\* the spec's own table: (*1|2) & (1|*2) has no default
=============================================================================
=============================================================================

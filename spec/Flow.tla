------------------------------- MODULE Flow -------------------------------
(***************************************************************************)
(* The tools/flow controller: New (initTasks + cycle check), runLoop       *)
(* (markReady, dispatch of every Ready task, wait for one completion,      *)
(* fold its result into the configuration, re-initialise tasks, markReady) *)
(* with task failure and tasks that only appear once another task's result *)
(* has been filled in ("latent" tasks behind a comprehension guard).       *)
(*                                                                         *)
(* The workflow (deps, latentOf, failing) is chosen in Init, so TLC        *)
(* explores every workflow of the bounded family and every completion      *)
(* order.  The same actions are reused by FlowTrace to validate recorded   *)
(* executions of the real controller.                                      *)
(***************************************************************************)
EXTENDS Integers, FiniteSets, Sequences, TLC

CONSTANTS N,            \* number of tasks
          AllowCycles,  \* BOOLEAN: arbitrary dependency relations (else deps point to lower indices)
          AllowLatent,  \* BOOLEAN: tasks may be latent
          AllowFail     \* BOOLEAN: one task may fail

Tasks == 1..N
Never == N + 1          \* latentOf value of a task that is not part of the workflow (padding in traces)

VARIABLES deps,      \* [Tasks -> SUBSET Tasks]   tasks referenced by t (directly or through fields)
          latentOf,  \* [Tasks -> 0..N+1]         0: present from the start; p: appears once p's result is filled
          failing,   \* 0..N                      task whose runner fails (0 none)
          exists,    \* SUBSET Tasks              tasks the controller knows
          st,        \* [Tasks -> {"Absent","Waiting","Ready","Running","Terminated"}]
          started,   \* [Tasks -> Nat]            times the runner was invoked
          seen,      \* [Tasks -> SUBSET Tasks]   deps whose result was in the value handed to the runner
          filled,    \* SUBSET Tasks              results folded into the configuration
          phase,     \* "new" | "dispatch" | "wait" | "done"
          result     \* "" | "ok" | "cycle" | "task" | "deadlock"

wf   == <<deps, latentOf, failing>>
vars == <<deps, latentOf, failing, exists, st, started, seen, filled, phase, result>>

\* ---- graph helpers ----
RECURSIVE ReachFrom(_, _, _)
ReachFrom(S, E, fuel) ==         \* tasks reachable from S through deps restricted to E
  IF fuel = 0 THEN S
  ELSE LET nx == S \cup UNION {deps[t] \cap E : t \in S} IN
       IF nx = S THEN S ELSE ReachFrom(nx, E, fuel - 1)
Cyclic(E) == \E t \in E : t \in ReachFrom(deps[t] \cap E, E, N)
Ancestors(t) == ReachFrom(deps[t], Tasks, N)   \* transitive dependencies of t

RECURSIVE LatentChain(_, _)
LatentChain(t, fuel) == IF fuel = 0 \/ latentOf[t] \in {0, Never} THEN {}
                        ELSE {latentOf[t]} \cup LatentChain(latentOf[t], fuel - 1)

Part == {t \in Tasks : latentOf[t] # Never}    \* tasks that are part of the workflow

\* ---- the family of workflows ----
WellFormed ==
  /\ \A t \in Tasks : t \notin deps[t]
  /\ \A t \in Tasks : latentOf[t] \in 0..(t - 1)            \* a latent task follows its guard task
  /\ \A t \in Tasks : \A d \in deps[t] :                     \* CUE scoping: d is visible from t iff
        latentOf[d] = 0 \/ latentOf[d] \in LatentChain(t, N)   \* d's guard is one of t's guards
  /\ AllowCycles \/ \A t \in Tasks : \A d \in deps[t] : d < t
  /\ AllowLatent \/ \A t \in Tasks : latentOf[t] = 0
  /\ AllowFail \/ failing = 0

Init ==
  /\ deps \in {f \in [Tasks -> SUBSET Tasks] :
                 \A t \in Tasks : t \notin f[t] /\ (AllowCycles \/ \A d \in f[t] : d < t)}
  /\ latentOf \in {g \in [Tasks -> 0..N] :
                 \A t \in Tasks : g[t] < t /\ (AllowLatent \/ g[t] = 0)}
  /\ failing \in (IF AllowFail THEN 0..N ELSE {0})
  /\ WellFormed
  /\ exists = {t \in Tasks : latentOf[t] = 0}
  /\ st = [t \in Tasks |-> IF latentOf[t] = 0 THEN "Waiting" ELSE "Absent"]
  /\ started = [t \in Tasks |-> 0]
  /\ seen = [t \in Tasks |-> {}]
  /\ filled = {}
  /\ phase = "new" /\ result = ""

\* markReady: every Waiting task all of whose dependencies are done
Marked(s) == [t \in Tasks |->
  IF s[t] = "Waiting" /\ \A d \in deps[t] : s[d] = "Terminated" THEN "Ready" ELSE s[t]]

\* Run: runLoop's first markReady; the cycle error found by New ends the run.
Begin ==
  /\ phase = "new"
  /\ st' = Marked(st)
  /\ IF Cyclic(exists) THEN phase' = "done" /\ result' = "cycle"
                       ELSE phase' = "dispatch" /\ UNCHANGED result
  /\ UNCHANGED <<wf, exists, started, seen, filled>>

\* case Ready: state := Running; the task's value is refreshed; goroutine started
Dispatch(t) ==
  /\ phase = "dispatch" /\ st[t] = "Ready"
  /\ st' = [st EXCEPT ![t] = "Running"]
  /\ started' = [started EXCEPT ![t] = @ + 1]
  /\ seen' = [seen EXCEPT ![t] = deps[t] \cap filled]
  /\ UNCHANGED <<wf, exists, filled, phase, result>>

\* all Ready tasks dispatched: wait for a completion, or leave the loop
StartWait ==
  /\ phase = "dispatch" /\ \A t \in Tasks : st[t] # "Ready"
  /\ IF \E t \in Tasks : st[t] = "Running"
       THEN phase' = "wait" /\ UNCHANGED result
       ELSE /\ phase' = "done"
            /\ result' = IF \E t \in Tasks : st[t] = "Waiting" THEN "deadlock" ELSE "ok"
  /\ UNCHANGED <<wf, exists, st, started, seen, filled>>

\* case t := <-taskCh with t.err == nil
Collect(t) ==
  /\ phase = "wait" /\ st[t] = "Running" /\ t # failing
  /\ LET f2 == filled \cup {t}
         e2 == exists \cup {u \in Tasks : latentOf[u] \in f2}
         s1 == [u \in Tasks |-> IF u = t THEN "Terminated"
                                ELSE IF u \in e2 \ exists THEN "Waiting" ELSE st[u]]
     IN /\ filled' = f2 /\ exists' = e2
        /\ st' = Marked(s1)
        /\ IF Cyclic(e2) THEN phase' = "done" /\ result' = "cycle"
                         ELSE phase' = "dispatch" /\ UNCHANGED result
  /\ UNCHANGED <<wf, started, seen>>

\* case t := <-taskCh with an error: the run ends at once
CollectFailure(t) ==
  /\ phase = "wait" /\ st[t] = "Running" /\ t = failing
  /\ st' = [st EXCEPT ![t] = "Terminated"]
  /\ phase' = "done" /\ result' = "task"
  /\ UNCHANGED <<wf, exists, started, seen, filled>>

Next ==
  \/ Begin \/ StartWait
  \/ \E t \in Tasks : Dispatch(t) \/ Collect(t) \/ CollectFailure(t)

Spec == Init /\ [][Next]_vars
FairSpec == Spec /\ WF_vars(Next)

\* ---------------------------------------------------------------- properties
TypeOK ==
  /\ st \in [Tasks -> {"Absent", "Waiting", "Ready", "Running", "Terminated"}]
  /\ phase \in {"new", "dispatch", "wait", "done"}
  /\ result \in {"", "ok", "cycle", "task", "deadlock"}

\* A task starts only after everything it references has completed
\* successfully and its results are in the configuration the task sees.
StartAfterDeps ==
  \A t \in Tasks : started[t] > 0 =>
     /\ seen[t] = deps[t]
     /\ \A d \in Ancestors(t) : st[d] = "Terminated" /\ d \in filled /\ d # failing

AtMostOnce == \A t \in Tasks : started[t] <= 1

\* a task exists only once its guard has been filled
LatentDiscipline == \A t \in exists : latentOf[t] = 0 \/ latentOf[t] \in filled

\* the defensive "deadlock" branch is unreachable
NoDeadlock == result # "deadlock"

AtExit ==
  phase = "done" =>
    /\ result = "ok" =>
         /\ \A t \in Part : st[t] = "Terminated" /\ started[t] = 1
         /\ filled = Part                                   \* final configuration = initial & all results
    /\ (~Cyclic(Part) /\ failing = 0) => result = "ok"      \* all tasks of an acyclic workflow run
    /\ result = "task" =>                                   \* a failure stops dependants
         \A t \in Tasks : failing \in Ancestors(t) => started[t] = 0
    /\ result = "cycle" => Cyclic(exists)

\* no task starts after a failure has been collected
FailureStops == [][result = "task" => started' = started]_vars

Terminates == <>(phase = "done")
=============================================================================

------------------------------- MODULE ModZip -------------------------------
(***************************************************************************)
(* Module archives (mod/modzip): which files of a file set make it into a  *)
(* module zip, which are omitted, which make the module invalid, following *)
(* the package documentation and module.CheckFilePath.                     *)
(*                                                                         *)
(* An archive is a set of entries from a fixed alphabet; each entry has a  *)
(* path chosen to hit one rule (the `why` column), a type and a size       *)
(* class.  Classify(e, A, via) gives the verdict of checking A as a file   *)
(* list / directory ("files") or as a zip ("zip"): "valid", "omitted" or   *)
(* "invalid".  Every state is one archive with the verdicts; the harness   *)
(* materialises it as a file list, a directory and a zip (hostile headers  *)
(* written raw) and runs CheckFiles, CheckDir, CheckZip, Create and Unzip. *)
(***************************************************************************)
EXTENDS Integers, Sequences, FiniteSets, TLC

CONSTANTS MaxEntries, Big   \* Big = TRUE adds the oversize entries

E(p, t, sz, why) == [p |-> p, t |-> t, sz |-> sz, why |-> why]
Entries == <<
  E("cue.mod/module.cue", "reg", "small", "modfile"),
  E("a.cue", "reg", "small", "ordinary"),
  E("d/b.cue", "reg", "small", "ordinary-nested"),
  E("A.cue", "reg", "small", "case-variant-of-a.cue"),
  E("x/../evil.cue", "reg", "small", "dotdot-inner"),
  E("../evil.cue", "reg", "small", "dotdot-leading"),
  E("./x.cue", "reg", "small", "dot-element"),
  E("/abs.cue", "reg", "small", "absolute"),
  E("d\\x.cue", "reg", "small", "backslash"),
  E("bad./x.cue", "reg", "small", "trailing-dot"),
  E("aux.cue", "reg", "small", "windows-reserved"),
  E("BADUTF8.cue", "reg", "small", "invalid-utf8"),
  E("CUE.MOD/module.cue", "reg", "small", "cuemod-dir-case"),
  E("cue.mod/Module.cue", "reg", "small", "modfile-case"),
  E("sub/cue.mod/module.cue", "reg", "small", "nested-module"),
  E("sub/x.cue", "reg", "small", "file-next-to-nested-module"),
  E("sub/cue.mod", "reg", "small", "nested-cuemod-file"),          \* a regular file named cue.mod marks sub/ as another module too
  E("cue.mod/local-module.cue", "reg", "small", "local-module-file"),
  E(".config/x.cue", "reg", "small", "leading-dot-directory"),
  E("LICENSE", "reg", "small", "licence"),
  E(".hg_archival.txt", "reg", "small", "hg-archival"),
  E("d", "reg", "small", "file-and-directory"),
  E("lnk.cue", "symlink", "small", "symlink"),
  E("a b+c.cue", "reg", "small", "allowed-punctuation"),
  E("q?.cue", "reg", "small", "forbidden-punctuation"),
  E("cue.mod/module.cue", "reg", "over", "modfile-oversize"),
  E("LICENSE", "reg", "over", "licence-oversize")
>>
NE == IF Big THEN Len(Entries) ELSE Len(Entries) - 2

Why(i) == Entries[i].why
Has(A, w) == \E j \in A : Why(j) = w

\* verdict for entry i of archive A when checked as a file list / directory ("files") or as a zip ("zip")
Classify(i, A, via) ==
  LET w == Why(i) IN
  CASE w \in {"dotdot-inner", "dotdot-leading", "dot-element", "absolute", "backslash", "trailing-dot",
              "windows-reserved", "invalid-utf8", "cuemod-dir-case", "modfile-case", "forbidden-punctuation",
              "modfile-oversize", "licence-oversize"} -> "invalid"
    \* a nested module is left out when a zip is built from files, and must not be present in a zip
    [] w \in {"nested-module", "nested-cuemod-file"} -> IF via = "zip" THEN "invalid" ELSE "omitted"
    [] w = "file-next-to-nested-module" -> IF Has(A, "nested-module") \/ Has(A, "nested-cuemod-file") THEN (IF via = "zip" THEN "valid" ELSE "omitted") ELSE "valid"
    [] w = "local-module-file" -> IF via = "zip" THEN "invalid" ELSE "omitted"
    [] w = "hg-archival" -> IF via = "zip" THEN "valid" ELSE "omitted"
    \* a symbolic link is left out of a file list; for an entry of a zip that merely carries the
    \* symlink mode bits the documentation ("not allowed") and extraction (a regular file is
    \* written) leave both verdicts defensible: "any"
    [] w = "symlink" -> IF via = "zip" THEN "any" ELSE "omitted"
    \* the module file and a case variant of it collide under case folding
    [] w = "modfile" -> IF Has(A, "cuemod-dir-case") \/ Has(A, "modfile-case") THEN "collides" ELSE "valid"
    \* one file of a case-colliding pair and the file that is also a directory are invalid
    [] w = "case-variant-of-a.cue" -> IF Has(A, "ordinary") THEN "collides" ELSE "valid"
    [] w = "ordinary" -> IF Has(A, "case-variant-of-a.cue") THEN "collides" ELSE "valid"
    [] w = "file-and-directory" -> IF Has(A, "ordinary-nested") THEN "collides" ELSE "valid"
    [] w = "ordinary-nested" -> IF Has(A, "file-and-directory") THEN "collides" ELSE "valid"
    [] OTHER -> "valid"

\* two entries with the same path cannot be in one file set
Consistent(A) == /\ \A i, j \in A : i # j => Entries[i].p # Entries[j].p
                 \* sub/cue.mod cannot be a file and a directory in one file set
                 /\ ~(Has(A, "nested-module") /\ Has(A, "nested-cuemod-file"))

\* the archive as a whole is acceptable
ArchiveOK(A, via) ==
  /\ \A i \in A : Classify(i, A, via) \in {"valid", "omitted", "any"}
  /\ \E i \in A : Why(i) = "modfile"

VARIABLES arch, files, zipv, okFiles, okZip
vars == <<arch, files, zipv, okFiles, okZip>>

Mk(A) ==
  /\ arch = A
  /\ files = [i \in A |-> Classify(i, A, "files")]
  /\ zipv = [i \in A |-> Classify(i, A, "zip")]
  /\ okFiles = ArchiveOK(A, "files") /\ okZip = ArchiveOK(A, "zip")

Init == \E A \in {S \in SUBSET (1..NE) : Cardinality(S) <= MaxEntries /\ Consistent(S)} : Mk(A)
Next == UNCHANGED vars

\* the model's own theorems
\* whatever is valid as a file list is valid or rejected, never silently different, as a zip;
\* a created zip (only valid files) is acceptable as a zip
CreatedZipOK == okFiles =>
   LET V == {i \in arch : files[i] = "valid"} IN ArchiveOK(V, "zip")
\* checking as files and as zip agree except for the two documented cases
CheckersAgree == \A i \in arch : files[i] # zipv[i] =>
   Why(i) \in {"local-module-file", "symlink", "nested-module", "nested-cuemod-file", "file-next-to-nested-module", "hg-archival"}

TablesInit == arch = [paths |-> [i \in 1..Len(Entries) |-> Entries[i].p], types |-> [i \in 1..Len(Entries) |-> Entries[i].t],
                      sizes |-> [i \in 1..Len(Entries) |-> Entries[i].sz], why |-> [i \in 1..Len(Entries) |-> Entries[i].why]]
              /\ files = <<>> /\ zipv = <<>> /\ okFiles = FALSE /\ okZip = FALSE
=============================================================================

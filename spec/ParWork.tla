------------------------------ MODULE ParWork ------------------------------
(***************************************************************************)
(* internal/par.Work: a set of work items processed by W runners, at most  *)
(* once each, where processing an item may add new items.  One action per  *)
(* critical section of w.mu, with the mutex explicit so that events        *)
(* recorded under the lock map 1:1 to actions.                             *)
(*                                                                         *)
(* cond.Wait releases the mutex and sleeps atomically (Sleep); Signal      *)
(* wakes one sleeper if there is one, Broadcast all; a woken runner must   *)
(* re-acquire the mutex (Wake).                                            *)
(***************************************************************************)
EXTENDS Integers, FiniteSets, Sequences, TLC

CONSTANTS W,      \* number of runners (Do's n)
          I,      \* number of items
          Lazy    \* TRUE: a runner may add any items and stop adding at any time (trace validation)

Workers == 1..W
Items == 1..I

VARIABLES children,   \* [Items -> SUBSET Items]  what processing an item adds
          added, todo, waiting,
          mu,         \* 0 or the runner holding w.mu
          sleeping,   \* runners blocked in cond.Wait
          pc, item, pend,
          processed   \* [Items -> Nat]

vars == <<children, added, todo, waiting, mu, sleeping, pc, item, pend, processed>>

Init ==
  /\ children \in (IF Lazy THEN {[i \in Items |-> Items]} ELSE [Items -> SUBSET Items])
  /\ added = {1} /\ todo = {1} /\ waiting = 0 /\ mu = 0 /\ sleeping = {}
  /\ pc = [w \in Workers |-> "top"] /\ item = [w \in Workers |-> 0]
  /\ pend = [w \in Workers |-> {}]
  /\ processed = [i \in Items |-> 0]

Lock(w) ==
  /\ pc[w] = "top" /\ mu = 0
  /\ mu' = w /\ pc' = [pc EXCEPT ![w] = "locked"]
  /\ UNCHANGED <<children, added, todo, waiting, sleeping, item, pend, processed>>

Pick(w, i) ==
  /\ pc[w] = "locked" /\ i \in todo
  /\ todo' = todo \ {i} /\ item' = [item EXCEPT ![w] = i]
  /\ mu' = 0 /\ pc' = [pc EXCEPT ![w] = "run"]
  /\ UNCHANGED <<children, added, waiting, sleeping, pend, processed>>

WaitEnter(w) ==
  /\ pc[w] = "locked" /\ todo = {}
  /\ waiting' = waiting + 1 /\ pc' = [pc EXCEPT ![w] = "entered"]
  /\ UNCHANGED <<children, added, todo, mu, sleeping, item, pend, processed>>

\* waiting == running: Broadcast, unlock, return
AllDone(w) ==
  /\ pc[w] = "entered" /\ waiting = W
  /\ pc' = [x \in Workers |-> IF x = w THEN "exited" ELSE IF x \in sleeping THEN "woken" ELSE pc[x]]
  /\ sleeping' = {} /\ mu' = 0
  /\ UNCHANGED <<children, added, todo, waiting, item, pend, processed>>

Sleep(w) ==
  /\ pc[w] = "entered" /\ waiting # W
  /\ sleeping' = sleeping \cup {w} /\ mu' = 0 /\ pc' = [pc EXCEPT ![w] = "sleeping"]
  /\ UNCHANGED <<children, added, todo, waiting, item, pend, processed>>

Wake(w) ==
  /\ pc[w] = "woken" /\ mu = 0
  /\ mu' = w /\ waiting' = waiting - 1 /\ pc' = [pc EXCEPT ![w] = "locked"]
  /\ UNCHANGED <<children, added, todo, sleeping, item, pend, processed>>

\* f(item) runs outside the lock
Run(w) ==
  /\ pc[w] = "run"
  /\ processed' = [processed EXCEPT ![item[w]] = @ + 1]
  /\ pend' = [pend EXCEPT ![w] = children[item[w]]]
  /\ pc' = [pc EXCEPT ![w] = "adding"]
  /\ UNCHANGED <<children, added, todo, waiting, mu, sleeping, item>>

\* Work.Add(c): lock, append if new and Signal if somebody waits, unlock
Add(w, c) ==
  /\ pc[w] = "adding" /\ c \in pend[w] /\ mu = 0
  /\ pend' = [pend EXCEPT ![w] = @ \ {c}]
  /\ IF c \in added
       THEN UNCHANGED <<added, todo, sleeping, pc>>
       ELSE /\ added' = added \cup {c} /\ todo' = todo \cup {c}
            /\ IF waiting > 0 /\ sleeping # {}
                 THEN \E s \in sleeping : sleeping' = sleeping \ {s} /\ pc' = [pc EXCEPT ![s] = "woken"]
                 ELSE UNCHANGED <<sleeping, pc>>
  /\ UNCHANGED <<children, waiting, mu, item, processed>>

DoneAdding(w) ==
  /\ pc[w] = "adding" /\ (pend[w] = {} \/ Lazy)
  /\ pc' = [pc EXCEPT ![w] = "top"] /\ pend' = [pend EXCEPT ![w] = {}]
  /\ UNCHANGED <<children, added, todo, waiting, mu, sleeping, item, processed>>

Step(w) ==
  \/ Lock(w) \/ WaitEnter(w) \/ AllDone(w) \/ Sleep(w) \/ Wake(w) \/ Run(w) \/ DoneAdding(w)
  \/ \E i \in Items : Pick(w, i) \/ Add(w, i)

Next == \E w \in Workers : Step(w)
Spec == Init /\ [][Next]_vars
FairSpec == Spec /\ \A w \in Workers : WF_vars(Step(w))

\* ------------------------------------------------------------ properties
AtMostOnce == \A i \in Items : processed[i] <= 1

WaitingCount == waiting = Cardinality({w \in Workers : pc[w] \in {"entered", "sleeping", "woken", "exited"}})

Busy == {w \in Workers : pc[w] \in {"run", "adding"}}
\* a runner returns (Do returns when runner 1 does) only when everything
\* added has been processed and nothing is in flight
ExitOnlyWhenDrained ==
  \A w \in Workers : pc[w] = "exited" =>
     todo = {} /\ Busy = {} /\ \A i \in added : processed[i] = 1

\* nothing is picked that was not added; nothing is processed twice or lost
Conservation == todo \subseteq added /\ \A i \in Items : processed[i] > 0 => i \in added /\ i \notin todo

\* no lost wake-up: pending work always has a runner that will look at it
NoLostWakeup == todo # {} => \E w \in Workers : pc[w] \notin {"sleeping", "exited"}

MutexOK == mu = 0 \/ pc[mu] \in {"locked", "entered"}

AllExit == <>(\A w \in Workers : pc[w] = "exited")
=============================================================================

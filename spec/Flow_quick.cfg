SPECIFICATION Spec
CONSTANTS N = 3 AllowCycles = TRUE AllowLatent = TRUE AllowFail = TRUE
INVARIANTS TypeOK StartAfterDeps AtMostOnce LatentDiscipline NoDeadlock AtExit
PROPERTY FailureStops

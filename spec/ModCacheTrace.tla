-------------------------- MODULE ModCacheTrace --------------------------
(***************************************************************************)
(* Trace validation for ModCache: events recorded from the real            *)
(* mod/modcache code (verifhook points, the instrumented in-memory         *)
(* registry and the worker's own call/return records) are replayed against *)
(* the actions of ModCache.  Each actor <<process, slot>> has its own      *)
(* event sequence; no order between actors is assumed, TLC searches for an *)
(* interleaving that the specification allows.  Several traces are checked *)
(* in one run: when every actor of the current trace is exhausted the      *)
(* model is reset and the next trace starts.                               *)
(*                                                                         *)
(* Steps of the model that have no hook (single-flight entry, the first    *)
(* of downloadDir's two stats, Unzip's pre-checks) are taken silently, but *)
(* only when the actor's next event needs them.                            *)
(***************************************************************************)
EXTENDS ModCache, Json

Traces == ndJsonDeserialize("traces.ndjson")   \* one line per trace: [id, a, final]
NT == Len(Traces)

VARIABLES k,    \* index of the trace being validated
          ix,   \* [Threads -> position in that actor's events]
          out   \* [Threads -> "none" | "ok" | "err"]  outcome of the last operation
tvars == <<vars, k, ix, out>>

\* Traces[k].a[p][g] is the event sequence of actor <<p, g>> (split by the harness).
Evs(t) == Traces[k].a[t[1]][t[2]]
HasNext(t) == k <= NT /\ ix[t] <= Len(Evs(t))
NextEv(t) == Evs(t)[ix[t]]
Is(t, name) == HasNext(t) /\ NextEv(t).ev = name
Consume(t) == ix' = [ix EXCEPT ![t] = @ + 1] /\ UNCHANGED k
Keep == UNCHANGED <<k, ix>>

\* outcome bookkeeping: an operation that ends sets out[t]
Ended(t) == pc[t] # "idle" /\ pc'[t] = "idle"
SetOut(t, ok) == out' = [out EXCEPT ![t] = IF ok THEN "ok" ELSE "err"]
TrackOut(t) ==
  IF Ended(t)
    THEN out' = [out EXCEPT ![t] =
           IF pc[t] \in {"F_StatPartial", "F_UnlockOK"} THEN "ok"
           ELSE IF pc[t] \in {"M_Read1"} THEN "ok"
           ELSE IF pc[t] = "M_Enter" THEN modOnce[ProcOf(t)][cur[t]]
           ELSE IF pc[t] = "M_Unlock" THEN res[t]
           ELSE "err"]
    ELSE UNCHANGED out

\* ---- silent steps, enabled only when the next event requires them ----
Silent(t) ==
  /\ HasNext(t) /\ Keep
  /\ \/ NextEv(t).ev = "F_CheckDir" /\ NextEv(t).b /\ pc[t] = "F_StatDir" /\ F_StatDir(t)
     \/ NextEv(t).ev = "F_CheckDir" /\ ~NextEv(t).b /\ pc[t] = "F_StatDir" /\ dirx[cur[t]] /\ F_StatDir(t)
     \/ NextEv(t).ev \in {"Z_Stat1", "F_Lock", "F_Return"} /\ Z_Enter(t)
     \/ NextEv(t).ev \in {"U_Mkdir", "F_UnzipFail"} /\ U_Check(t)
     \/ NextEv(t).ev = "Z_Fail" /\ Z_CopyFault(t)
     \/ NextEv(t).ev \in {"M_Read1", "M_Return"} /\ M_Enter(t)
  /\ TrackOut(t)

\* ---- one trace action per hook ----
Ev(t) ==
  /\ HasNext(t) /\ Consume(t)
  /\ LET e == NextEv(t) IN
     \/ e.ev = "StartFetch" /\ StartFetch(t, e.v)
     \/ e.ev = "StartModFile" /\ StartModFile(t, e.v)
     \* downloadDir said "complete" (b) or not
     \/ e.ev = "F_CheckDir" /\ e.b /\ pc[t] = "F_StatPartial" /\ ~partial[cur[t]] /\ F_StatPartial(t)
     \/ e.ev = "F_CheckDir" /\ ~e.b /\ pc[t] = "F_StatPartial" /\ partial[cur[t]] /\ F_StatPartial(t)
     \/ e.ev = "F_CheckDir" /\ ~e.b /\ pc[t] = "F_StatDir" /\ ~dirx[cur[t]] /\ F_StatDir(t)
     \/ e.ev = "Z_Stat1" /\ e.b = (zip[cur[t]] # "absent") /\ Z_Stat1(t)
     \/ e.ev = "Z_Lock" /\ Z_Lock(t)
     \/ e.ev = "Z_Stat2" /\ e.b = (zip[cur[t]] # "absent") /\ Z_Stat2(t)
     \/ e.ev = "Z_CleanTmp" /\ Z_CleanTmp(t)
     \/ e.ev = "Z_CreateTmp" /\ Z_CreateTmp(t)
     \/ e.ev = "Z_Get" /\ Z_Get(t)
     \/ e.ev = "Z_Chunk" /\ pc[t] = "Z_Copy" /\ UNCHANGED vars
     \/ e.ev = "Z_Copied" /\ Z_Copied(t)
     \/ e.ev = "Z_Rename" /\ Z_Rename(t)
     \/ e.ev = "Z_Fail" /\ Z_Fail(t)
     \/ e.ev = "Z_Unlock" /\ Z_Unlock(t)
     \/ e.ev = "F_Lock" /\ F_Lock(t)
     \/ e.ev = "F_Recheck" /\ e.b = (dirx[cur[t]] /\ ~partial[cur[t]]) /\ F_Recheck(t)
     \/ e.ev = "F_RemoveDir" /\ F_RemoveDir(t)
     \/ e.ev = "F_WritePartial" /\ F_WritePartial(t)
     \/ e.ev = "U_Mkdir" /\ U_Mkdir(t)
     \/ e.ev = "U_Create" /\ e.f = fidx[t] /\ U_Create(t)
     \/ e.ev = "U_Close" /\ e.f = fidx[t] /\ U_Close(t)
     \/ e.ev = "F_UnzipFail" /\ F_UnzipFail12(t)
     \/ e.ev = "F_RemovePartial" /\ F_RemovePartial(t)
     \/ e.ev = "F_Unlock" /\ (F_UnlockOK(t) \/ F_UnlockErr(t))
     \/ e.ev = "M_Read1" /\ e.b = (mod[cur[t]] # "absent") /\ M_Read1(t)
     \/ e.ev = "M_Lock" /\ M_Lock(t)
     \/ e.ev = "M_Read2" /\ e.b = (mod[cur[t]] # "absent") /\ M_Read2(t)
     \/ e.ev = "M_Get" /\ M_Get(t)
     \/ e.ev = "M_CreateTmp" /\ M_CreateTmp(t)
     \/ e.ev = "M_Write" /\ M_Write(t)
     \/ e.ev = "M_Rename" /\ M_Rename(t)
     \/ e.ev = "M_Unlock" /\ M_Unlock(t)
  /\ TrackOut(t)

\* The worker's record of what Fetch / ModFile returned: the outcome must be
\* the model's, and an ok result must have been observed complete (b) with
\* the registry's content.
Return(t) ==
  /\ HasNext(t) /\ NextEv(t).ev \in {"F_Return", "M_Return"} /\ pc[t] = "idle"
  /\ out[t] = (IF NextEv(t).ok THEN "ok" ELSE "err")
  /\ NextEv(t).ok => NextEv(t).b
  /\ Consume(t) /\ out' = [out EXCEPT ![t] = "none"] /\ UNCHANGED vars

\* The driver killed process p: every actor of p is at its Crash marker.
\* A thread that was idle has no marker (it simply has no further events
\* in this incarnation).
TraceCrash(p) ==
  /\ k <= NT
  /\ \E t \in Threads : ProcOf(t) = p /\ Is(t, "Crash")
  /\ \A t \in Threads : ProcOf(t) = p => Is(t, "Crash")
  /\ CrashRestart(p)
  /\ ix' = [t \in Threads |-> IF ProcOf(t) = p THEN ix[t] + 1 ELSE ix[t]]
  /\ out' = [t \in Threads |-> IF ProcOf(t) = p THEN "none" ELSE out[t]]
  /\ UNCHANGED k

\* A crash while every thread of p is idle changes nothing on disk; the
\* model's Crash needs a running thread, so such markers are just consumed.
TraceCrashIdle(p) ==
  /\ k <= NT
  /\ \A t \in Threads : ProcOf(t) = p => (Is(t, "Crash") /\ pc[t] = "idle")
  /\ ix' = [t \in Threads |-> IF ProcOf(t) = p THEN ix[t] + 1 ELSE ix[t]]
  /\ zipOnce' = [zipOnce EXCEPT ![p] = [v \in Vers |-> "none"]]
  /\ modOnce' = [modOnce EXCEPT ![p] = [v \in Vers |-> "none"]]
  /\ downloads' = [downloads EXCEPT ![p] = [v \in Vers |-> 0]]
  /\ out' = [t \in Threads |-> IF ProcOf(t) = p THEN "none" ELSE out[t]]
  /\ UNCHANGED <<disk, zipRun, modRun, thr, crashes, faults, ops, served, bad, k>>

Done == k <= NT /\ \A t \in Threads : ix[t] = Len(Evs(t)) + 1

\* The disk projection the driver observed at the end of the trace must be
\* the model's.
FinalDiskOK ==
  LET d == Traces[k].final IN
  \A v \in Vers :
    /\ d[v].zip = zip[v] /\ d[v].mod = mod[v]
    /\ d[v].partial = partial[v] /\ d[v].dirx = dirx[v]
    /\ d[v].files = [f \in Files |-> files[v][f]]
    /\ d[v].zstale = (zstale[v] \/ \E t \in Threads : ztmp[v][t] # "none")
    /\ d[v].mstale = (mstale[v] \/ \E t \in Threads : mtmp[v][t] # "none")
    /\ ~d[v].junk

TraceReset ==
  /\ Done /\ FinalDiskOK
  /\ k' = k + 1
  /\ ix' = [t \in Threads |-> 1] /\ out' = [t \in Threads |-> "none"]
  /\ zip' = [v \in Vers |-> "absent"] /\ mod' = [v \in Vers |-> "absent"]
  /\ ztmp' = [v \in Vers |-> [t \in Threads |-> "none"]]
  /\ mtmp' = [v \in Vers |-> [t \in Threads |-> "none"]]
  /\ zstale' = [v \in Vers |-> FALSE] /\ mstale' = [v \in Vers |-> FALSE]
  /\ partial' = [v \in Vers |-> FALSE] /\ dirx' = [v \in Vers |-> FALSE]
  /\ files' = [v \in Vers |-> [f \in Files |-> "missing"]]
  /\ lock' = [v \in Vers |-> NoThread]
  /\ zipOnce' = [p \in Procs |-> [v \in Vers |-> "none"]]
  /\ modOnce' = [p \in Procs |-> [v \in Vers |-> "none"]]
  /\ zipRun' = [p \in Procs |-> [v \in Vers |-> NoThread]]
  /\ modRun' = [p \in Procs |-> [v \in Vers |-> NoThread]]
  /\ pc' = [t \in Threads |-> "idle"] /\ cur' = [t \in Threads |-> 1]
  /\ res' = [t \in Threads |-> "ok"] /\ dirSeen' = [t \in Threads |-> FALSE]
  /\ fidx' = [t \in Threads |-> 1]
  /\ crashes' = 0 /\ faults' = 0 /\ ops' = 0
  /\ downloads' = [p \in Procs |-> [v \in Vers |-> 0]]
  /\ served' = [v \in Vers |-> FALSE] /\ bad' = FALSE

TraceInit == Init /\ k = 1 /\ ix = [t \in Threads |-> 1] /\ out = [t \in Threads |-> "none"]

TraceNext ==
  \/ \E t \in Threads : Ev(t) \/ Silent(t) \/ Return(t)
  \/ \E p \in Procs : TraceCrash(p) \/ TraceCrashIdle(p)
  \/ TraceReset

TraceSpec == TraceInit /\ [][TraceNext]_tvars

\* Progress registers: 1 = traces fully accepted, 2 = events consumed in the
\* trace being validated (for diagnostics of a rejection).
Consumed == LET S[n \in 0..(NP * TPP)] ==
                  IF n = 0 THEN 0
                  ELSE S[n - 1] + ix[<<((n - 1) \div TPP) + 1, ((n - 1) % TPP) + 1>>] - 1
            IN S[NP * TPP]
Progress2 ==
  /\ IF k - 1 > TLCGet(1) THEN TLCSet(1, k - 1) /\ TLCSet(2, 0) ELSE TRUE
  /\ IF k - 1 = TLCGet(1) /\ Consumed > TLCGet(2) THEN TLCSet(2, Consumed) ELSE TRUE
  \* every trace explained: stop exploring the remaining interleavings
  /\ IF k > NT THEN PrintT(<<"ACCEPTED", NT, "OF", NT, "CONSUMED", 0>>) /\ TLCSet("exit", TRUE) ELSE TRUE
ASSUME TLCSet(1, 0) /\ TLCSet(2, 0)

AllAccepted ==
  /\ PrintT(<<"ACCEPTED", TLCGet(1), "OF", NT, "CONSUMED", TLCGet(2)>>)
  /\ TLCGet(1) = NT
=============================================================================

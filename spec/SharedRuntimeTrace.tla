------------------------ MODULE SharedRuntimeTrace ------------------------
(***************************************************************************)
(* Histories recorded from goroutines using a shared cue.Value (under the  *)
(* race detector) are replayed against the shared-value object of          *)
(* SharedRuntime: every Return must carry the sequential answer            *)
(* base[op] computed on a fresh context before the run, the answers        *)
(* recomputed on the shared value after the run must be unchanged, and the *)
(* label-index lookups of all goroutines must form one injective map.      *)
(***************************************************************************)
EXTENDS SharedRuntime, Json

Traces == ndJsonDeserialize("traces.ndjson")  \* [prog, evaluated, ngor, base, post, ev, keys]
NT == Len(Traces)

VARIABLES k, i
tvars == <<vars, k, i>>

T == Traces[k]
Evs == T.ev
HasNext == k <= NT /\ i <= Len(Evs)
E == Evs[i]

EvCall ==
  /\ HasNext /\ E.ev = "Call" /\ Call(E.g, E.op) /\ i' = i + 1 /\ UNCHANGED k
EvReturn ==
  /\ HasNext /\ E.ev = "Return" /\ inflight[E.g] = E.op
  /\ E.res = T.base[E.op]            \* what the call would return if run alone
  /\ Return(E.g) /\ i' = i + 1 /\ UNCHANGED k

\* label index: pairs <<string, index>> observed by any goroutine
KeysOK(ks) ==
  \A a \in DOMAIN ks : \A b \in DOMAIN ks :
     (ks[a].s = ks[b].s) <=> (ks[a].idx = ks[b].idx)

TraceReset ==
  /\ k <= NT /\ i = Len(Evs) + 1
  /\ \A g \in Gs : inflight[g] = 0
  /\ T.post = T.base                 \* the shared value is unchanged afterwards
  /\ KeysOK(T.keys)
  /\ k' = k + 1 /\ i' = 1
  /\ IF k + 1 <= NT
       THEN /\ prog' = Traces[k + 1].prog /\ evaluated' = Traces[k + 1].evaluated
            /\ ngor' = Traces[k + 1].ngor /\ finalized' = Traces[k + 1].evaluated
       ELSE UNCHANGED <<prog, evaluated, ngor, finalized>>
  /\ inflight' = [g \in Gs |-> 0] /\ hist' = <<>>
  /\ UNCHANGED ivars

TraceInit ==
  /\ Init /\ k = 1 /\ i = 1
  /\ prog = Traces[1].prog /\ evaluated = Traces[1].evaluated /\ ngor = Traces[1].ngor

TraceNext == EvCall \/ EvReturn \/ TraceReset
TraceSpec == TraceInit /\ [][TraceNext]_tvars

Progress2 ==
  /\ IF k - 1 > TLCGet(1) THEN TLCSet(1, k - 1) /\ TLCSet(2, 0) ELSE TRUE
  /\ IF k - 1 = TLCGet(1) /\ i - 1 > TLCGet(2) THEN TLCSet(2, i - 1) ELSE TRUE
  /\ IF k > NT THEN PrintT(<<"ACCEPTED", NT, "OF", NT, "CONSUMED", 0>>) /\ TLCSet("exit", TRUE) ELSE TRUE
ASSUME TLCSet(1, 0) /\ TLCSet(2, 0)
AllAccepted ==
  /\ PrintT(<<"ACCEPTED", TLCGet(1), "OF", NT, "CONSUMED", TLCGet(2)>>)
  /\ TLCGet(1) = NT
=============================================================================

--------------------------- MODULE SharedRuntime ---------------------------
(***************************************************************************)
(* What goroutines share when they use cue.Values of one (or several)      *)
(* contexts concurrently:                                                  *)
(*  1. the process-wide label index (internal/core/runtime getKey): read   *)
(*     under RLock, and on a miss re-read and append under Lock;           *)
(*  2. a shared value as an object with an immutable abstract state: every *)
(*     call returns Apply(op, value) whatever else runs, and the value is  *)
(*     unchanged afterwards, even though the first reader may finalise the *)
(*     value lazily (an internal, idempotent step).                        *)
(* Part 1 is model-checked exhaustively; part 2 generates the call         *)
(* schedules (TLC -simulate) that the harness runs under the race detector *)
(* and defines, with SharedRuntimeTrace, which histories are acceptable.   *)
(***************************************************************************)
EXTENDS Integers, Sequences, FiniteSets, TLC

CONSTANTS G,        \* goroutines
          Keys,     \* strings looked up in the label index
          NOps,     \* size of the method alphabet
          NProgs,   \* programs in the harness pool
          MaxCalls  \* calls per generated schedule

Gs == 1..G
Ops == 1..NOps

VARIABLES
  \* --- label index ---
  labels,     \* sequence of keys (index -> string)
  lmap,       \* [Keys -> 0..] 0 = absent, else index in labels
  readers,    \* set of goroutines holding RLock
  writer,     \* 0 or goroutine holding Lock
  kpc, kkey, kres,
  \* --- shared value ---
  prog, evaluated, ngor,
  finalized,  \* the lazily computed internal state
  inflight,   \* [Gs -> 0 or op]
  hist        \* sequence of <<g, op>> calls in the order they were issued

ivars == <<labels, lmap, readers, writer, kpc, kkey, kres>>
vvars == <<prog, evaluated, ngor, finalized, inflight, hist>>
vars == <<ivars, vvars>>

Init ==
  /\ labels = <<>> /\ lmap = [k \in Keys |-> 0] /\ readers = {} /\ writer = 0
  /\ kpc = [g \in Gs |-> "idle"] /\ kkey \in [Gs -> Keys] /\ kres = [g \in Gs |-> 0]
  /\ prog \in 1..NProgs /\ evaluated \in BOOLEAN /\ ngor \in 2..G
  /\ finalized = evaluated /\ inflight = [g \in Gs |-> 0] /\ hist = <<>>

\* ---------------------------------------------------------------- getKey
KStart(g) == kpc[g] = "idle" /\ kres[g] = 0 /\ kpc' = [kpc EXCEPT ![g] = "rlock"]
             /\ UNCHANGED <<labels, lmap, readers, writer, kkey, kres, vvars>>
KRLock(g) == kpc[g] = "rlock" /\ writer = 0 /\ readers' = readers \cup {g}
             /\ kpc' = [kpc EXCEPT ![g] = "read"] /\ UNCHANGED <<labels, lmap, writer, kkey, kres, vvars>>
KRead(g) ==  /\ kpc[g] = "read" /\ readers' = readers \ {g}
             /\ IF lmap[kkey[g]] # 0
                  THEN kres' = [kres EXCEPT ![g] = lmap[kkey[g]]] /\ kpc' = [kpc EXCEPT ![g] = "done"]
                  ELSE kpc' = [kpc EXCEPT ![g] = "lock"] /\ UNCHANGED kres
             /\ UNCHANGED <<labels, lmap, writer, kkey, vvars>>
KLock(g) ==  kpc[g] = "lock" /\ writer = 0 /\ readers = {} /\ writer' = g
             /\ kpc' = [kpc EXCEPT ![g] = "recheck"] /\ UNCHANGED <<labels, lmap, readers, kkey, kres, vvars>>
KRecheck(g) ==
  /\ kpc[g] = "recheck"
  /\ IF lmap[kkey[g]] # 0
       THEN kres' = [kres EXCEPT ![g] = lmap[kkey[g]]] /\ UNCHANGED <<labels, lmap>>
       ELSE /\ labels' = Append(labels, kkey[g])
            /\ lmap' = [lmap EXCEPT ![kkey[g]] = Len(labels) + 1]
            /\ kres' = [kres EXCEPT ![g] = Len(labels) + 1]
  /\ writer' = 0 /\ kpc' = [kpc EXCEPT ![g] = "done"]
  /\ UNCHANGED <<readers, kkey, vvars>>
KNext == \E g \in Gs : KStart(g) \/ KRLock(g) \/ KRead(g) \/ KLock(g) \/ KRecheck(g)

Injective == \A i, j \in DOMAIN labels : labels[i] = labels[j] => i = j
InverseMap == \A k \in Keys : lmap[k] # 0 => labels[lmap[k]] = k
OwnIndex == \A g \in Gs : kres[g] # 0 => labels[kres[g]] = kkey[g]
LockExclusive == writer # 0 => readers = {}
AppendOnly == [][\A i \in DOMAIN labels : i \in DOMAIN labels' /\ labels'[i] = labels[i]]_vars
KDone == <>(\A g \in Gs : kpc[g] = "done")

\* ---------------------------------------------------------------- shared value
\* The abstract answer of a method depends only on the program.
Apply(op, p) == <<p, op>>

Call(g, op) ==
  /\ g <= ngor /\ inflight[g] = 0 /\ Len(hist) < MaxCalls
  /\ inflight' = [inflight EXCEPT ![g] = op]
  /\ hist' = Append(hist, <<g, op>>)
  /\ UNCHANGED <<ivars, prog, evaluated, ngor, finalized>>

\* the first method that needs it finalises the value; doing so twice, or
\* while others read, must not change any answer
Return(g) ==
  /\ inflight[g] # 0
  /\ inflight' = [inflight EXCEPT ![g] = 0]
  /\ finalized' = TRUE
  /\ UNCHANGED <<ivars, prog, evaluated, ngor, hist>>

VNext == \E g \in Gs : Return(g) \/ \E op \in Ops : Call(g, op)

Next == KNext \/ VNext
Spec == Init /\ [][Next]_vars
KSpec == Init /\ [][KNext]_vars /\ \A g \in Gs : WF_vars(KStart(g) \/ KRLock(g) \/ KRead(g) \/ KLock(g) \/ KRecheck(g))
VSpec == Init /\ [][VNext]_vars
=============================================================================

----------------------------- MODULE CueLiteral -----------------------------
(***************************************************************************)
(* String and bytes literals.                                              *)
(*                                                                         *)
(* Part 1 (Mode = "quote"): every sequence of up to L symbols of an        *)
(* adversarial alphabet (quotes, backslash, #, LF, CR, TAB, "\(", plain    *)
(* letters that are also escape letters, a 2-byte and a 4-byte rune, NUL,  *)
(* the invalid-UTF-8 byte 0xFF for bytes) together with every quoting form *)
(* the literal package offers.  The property is Unquote(Quote(f, s)) = s;  *)
(* each state is one (s, form) the harness runs through the real package,  *)
(* the scanner and the parser.                                             *)
(*                                                                         *)
(* Part 2 (Mode = "valid"): candidate token texts over the alphabet        *)
(* { " \ n a # LF } with IsLit(t), the specification's grammar of          *)
(* single-line interpreted string literals with # delimiters, as a         *)
(* recogniser; scanner, parser and literal.Unquote must all agree with it. *)
(***************************************************************************)
EXTENDS Integers, Sequences, FiniteSets, TLC

CONSTANTS Mode, L

\* ---- part 1 ----
Syms == <<"dq", "sq", "bs", "hash", "lf", "cr", "tab", "lparen", "n", "u", "x", "a", "eacute", "emoji", "nul", "del", "xff", "repl">>
NSym == Len(Syms)
Forms == [kind : {"string", "bytes"},
          ml : {"single", "tabs1", "opt-tabs1", "tabs0"},
          hashes : BOOLEAN,
          cs : {"any", "ascii", "graphic"}]
\* 0xFF is not a string (invalid UTF-8); it is meaningful for bytes only
OKFor(f, s) == f.kind = "bytes" \/ \A i \in DOMAIN s : Syms[s[i]] # "xff"

\* ---- part 2 ----
TChars == <<"dq", "bs", "n", "a", "hash", "lf">>
\* t is a sequence over 1..6 (indices in TChars)
Ch(t, i) == TChars[t[i]]
\* number of leading hashes
RECURSIVE Lead(_, _)
Lead(t, i) == IF i <= Len(t) /\ Ch(t, i) = "hash" THEN 1 + Lead(t, i + 1) ELSE 0
HashesAt(t, i, h) == \A j \in 0..(h - 1) : i + j <= Len(t) /\ Ch(t, i + j) = "hash"
\* body scanner: position i, h hashes; TRUE iff t[i..] is  body " #^h  exactly
RECURSIVE Body(_, _, _)
Body(t, i, h) ==
  IF i > Len(t) THEN FALSE
  ELSE LET c == Ch(t, i) IN
    IF c = "lf" THEN FALSE
    ELSE IF c = "dq" /\ HashesAt(t, i + 1, h)
      THEN i + h = Len(t)                        \* closing delimiter must end the token
    ELSE IF c = "bs" /\ HashesAt(t, i + 1, h)
      THEN \* an escape: \ #^h followed by one of n a " \
           LET k == i + 1 + h IN
           k <= Len(t) /\ Ch(t, k) \in {"n", "a", "dq", "bs"} /\ Body(t, k + 1, h)
    ELSE Body(t, i + 1, h)
TripleAt(t, i) == i + 2 <= Len(t) /\ Ch(t, i) = "dq" /\ Ch(t, i + 1) = "dq" /\ Ch(t, i + 2) = "dq"
\* single-line literal:  #^h " body " #^h
Single(t) ==
  LET h == Lead(t, 1) IN
  /\ h + 1 <= Len(t) /\ Ch(t, h + 1) = "dq"
  \* three quotes open a multi-line literal, unless the third one (with its hashes) closes the token
  /\ ~(TripleAt(t, h + 1) /\ Len(t) > h + 3 + h)
  /\ Body(t, h + 2, h)

\* multi-line literal:  #^h """ LF lines LF """ #^h ; the closing delimiter stands
\* at the start of a line (there is no other white space in this alphabet)
RECURSIVE MBody(_, _, _, _)
MBody(t, i, h, bol) ==        \* bol: at the beginning of a line
  IF i > Len(t) THEN FALSE
  ELSE IF TripleAt(t, i) /\ HashesAt(t, i + 3, h)
    THEN bol /\ i + 2 + h = Len(t)             \* the closing delimiter must start a line and end the token
  ELSE LET c == Ch(t, i) IN
    IF c = "lf" THEN MBody(t, i + 1, h, TRUE)
    ELSE IF c = "bs" /\ HashesAt(t, i + 1, h)
      THEN LET k == i + 1 + h IN
           k <= Len(t) /\ Ch(t, k) \in {"n", "a", "dq", "bs"} /\ MBody(t, k + 1, h, FALSE)
    ELSE MBody(t, i + 1, h, FALSE)
Multi(t) ==
  LET h == Lead(t, 1) IN
  /\ TripleAt(t, h + 1) /\ h + 4 <= Len(t) /\ Ch(t, h + 4) = "lf"
  /\ MBody(t, h + 5, h, TRUE)

IsLit(t) == Single(t) \/ Multi(t)

\* ---- part 3 (Mode = "ident"): identifiers ----
\* identifier = [ "#" | "_#" ] letter { letter | unicode_digit } ;  letter = unicode_letter | "_" | "$"
\* classes of the candidate characters: the harness instantiates "L" with a, é and a CJK letter,
\* "D" with an ASCII digit, an Arabic-Indic digit and a full-width digit
IChars == <<"L", "D", "us", "dollar", "hash", "dash", "dot">>
ICh(t, i) == IChars[t[i]]
IsLetter(c) == c \in {"L", "us", "dollar"}
IdentBody(t, i) == i <= Len(t) /\ IsLetter(ICh(t, i)) /\ \A j \in (i + 1)..Len(t) : IsLetter(ICh(t, j)) \/ ICh(t, j) = "D"
\* "#" and "_#" alone: the grammar asks for a letter after them, but scanner, parser and ast.IsValidIdent
\* all accept them (they are used as bare definition markers); the property asks that the three agree
IsIdent(t) ==
  \/ IdentBody(t, 1)
  \/ (Len(t) = 1 /\ ICh(t, 1) = "hash") \/ (Len(t) = 2 /\ ICh(t, 1) = "us" /\ ICh(t, 2) = "hash")
  \/ Len(t) >= 2 /\ ICh(t, 1) = "hash" /\ IdentBody(t, 2)
  \/ Len(t) >= 3 /\ ICh(t, 1) = "us" /\ ICh(t, 2) = "hash" /\ IdentBody(t, 3)

VARIABLES s, form, valid
vars == <<s, form, valid>>
Seqs(n, k) == UNION {[1..m -> 1..n] : m \in 0..k}
NoForm == [kind |-> "none", ml |-> "single", hashes |-> FALSE, cs |-> "any"]
Init ==
  IF Mode = "quote"
    THEN /\ s \in Seqs(NSym, L) /\ form \in Forms /\ OKFor(form, s) /\ valid = TRUE
    ELSE IF Mode = "ident"
    THEN /\ s \in Seqs(Len(IChars), L) /\ s # <<>> /\ form = NoForm /\ valid = IsIdent(s)
    ELSE /\ s \in Seqs(Len(TChars), L) /\ s # <<>> /\ form = NoForm /\ valid = IsLit(s)
Next == UNCHANGED vars

\* sanity of the recogniser: a literal starts with its hashes and a quote and ends with a quote and the same hashes
LitShape == (Mode = "valid" /\ valid) =>
   LET h == Lead(s, 1) IN Len(s) >= 2 * h + 2 /\ Ch(s, Len(s) - h) = "dq" /\ HashesAt(s, Len(s) - h + 1, h)
=============================================================================

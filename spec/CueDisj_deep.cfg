SPECIFICATION Spec
CONSTANTS MaxConj = 3 MaxAlt = 3 Seed = 1 Sample = 22
INVARIANTS Swap2 Rot3 Idem DefaultWithinValue

SPECIFICATION Spec
CONSTANTS Family = "cli" Mode = "automaton" Sample = 0 MaxPos = 0
INVARIANTS TypeOK Repeatable ParseErrorEnds ErrorValueNotExported
PROPERTY Terminates
CHECK_DEADLOCK FALSE

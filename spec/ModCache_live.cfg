SPECIFICATION FairSpec
CONSTANTS NP = 2 TPP = 1 NV = 1 NF = 2 MaxCrashes = 1 MaxFaults = 1 MaxOps = 2
PROPERTY Progress

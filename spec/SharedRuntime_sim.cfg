SPECIFICATION VSpec
CONSTANTS G = 8 Keys = {"a"} NOps = 19 NProgs = 24 MaxCalls = 40

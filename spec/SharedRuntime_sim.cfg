SPECIFICATION VSpec
CONSTANTS G = 8 Keys = {"a"} NOps = 16 NProgs = 24 MaxCalls = 40

--------------------------- MODULE CueLattice ---------------------------
(***************************************************************************)
(* The scalar fragment of the CUE value lattice: atoms, basic types,       *)
(* predeclared numeric ranges and bounds, combined with &.                 *)
(*                                                                         *)
(* Sat(a, c) is the language specification's meaning of "atom a is an      *)
(* instance of constraint c" (doc/ref/spec.md: Bounds, Numeric values,     *)
(* Predeclared identifiers).  A conjunction denotes the intersection of    *)
(* its conjuncts.  Numbers are stored multiplied by 4 so that every        *)
(* half-integer bound constant has atoms strictly between it and its       *)
(* neighbours and on both sides.                                           *)
(*                                                                         *)
(* The module is used three ways:                                          *)
(*  - Tables:   one state carrying the alphabet and the atom universe so   *)
(*              the harness renders exactly what the spec talks about;     *)
(*  - Generate: cs grows one constraint per step (non-decreasing alphabet  *)
(*              index, so every multiset appears once); den is maintained  *)
(*              incrementally and checked against the declarative          *)
(*              definition; every reachable state is replayed into the     *)
(*              real evaluator by the harness;                             *)
(*  - acc:      an operational accumulator shaped like the evaluator's     *)
(*              node state (kind mask, scalar, lower, upper, excluded      *)
(*              points, matchers) with its simplification table; TLC       *)
(*              checks that it denotes the same set and detects bottom     *)
(*              exactly when the spec's denotation over the dense line is  *)
(*              empty.                                                     *)
(***************************************************************************)
EXTENDS Integers, Sequences, FiniteSets, TLC

CONSTANT MaxN   \* maximum number of conjuncts

Atom(k, n, s) == [k |-> k, n |-> n, s |-> s]

\* ---- universe of atoms ----
StrOrd == <<"", "a", "aa", "ab", "b", "c">>      \* bytewise order
SIdx(s) == CHOOSE i \in DOMAIN StrOrd : StrOrd[i] = s

SmallInts == [i \in 1..10 |-> Atom("int", 4 * (i - 4), "")]            \* -3..6
EdgeInts  == << Atom("int", 4 * (-129), ""), Atom("int", 4 * (-128), ""),
                Atom("int", 4 * 127, ""), Atom("int", 4 * 128, ""),
                Atom("int", 4 * 255, ""), Atom("int", 4 * 256, "") >>
Floats    == [i \in 1..37 |-> Atom("float", i - 13, "")]               \* -3.0 .. 6.0 step 1/4
\* the last four are rendered in exponent notation by the harness (5e2, -5e2, 1e3, 1e5)
EdgeFloats == << Atom("float", 4 * 127 + 2, ""), Atom("float", 4 * 256, ""),
                 Atom("float", 4 * 500, ""), Atom("float", 4 * (-500), ""), Atom("float", 4 * 1000, ""), Atom("float", 4 * 100000, "") >>
Strings   == [i \in 1..6 |-> Atom("string", 0, StrOrd[i])]
Bytes     == [i \in 1..6 |-> Atom("bytes", 0, StrOrd[i])]
Others    == << Atom("bool", 1, ""), Atom("bool", 0, ""), Atom("null", 0, "") >>

AtomSeq == SmallInts \o EdgeInts \o Floats \o EdgeFloats \o Strings \o Bytes \o Others
NAtoms  == Len(AtomSeq)

IsNum(a) == a.k \in {"int", "float"}

\* ---- constraint alphabet ----
Con(op, k, n, s) == [op |-> op, k |-> k, n |-> n, s |-> s]

CmpOps == <<"lt", "le", "gt", "ge", "ne">>

NumConsts == << Atom("int", -4, ""), Atom("int", 0, ""), Atom("int", 4, ""),
                Atom("int", 8, ""), Atom("int", 20, ""), Atom("int", 40, ""), Atom("int", 400, ""), Atom("int", -400, ""),
                Atom("float", 2, ""), Atom("float", 6, ""), Atom("float", 10, ""),
                Atom("float", 4, "") >>
StrConsts == << Atom("string", 0, "a"), Atom("string", 0, "b"), Atom("bytes", 0, "a") >>

BoundsOf(consts) ==
  [i \in 1..(Len(consts) * 5) |->
     LET c == consts[((i - 1) \div 5) + 1] IN Con(CmpOps[((i - 1) % 5) + 1], c.k, c.n, c.s)]

TypeNames == <<"null", "bool", "int", "float", "number", "string", "bytes">>
Types == [i \in 1..7 |-> Con("type", TypeNames[i], 0, "")]

AtomCons == << Con("atom", "int", 0, ""), Con("atom", "int", 4, ""), Con("atom", "int", 8, ""),
               Con("atom", "float", 4, ""), Con("atom", "float", 6, ""),
               Con("atom", "string", 0, "a"), Con("atom", "string", 0, "ab"),
               Con("atom", "bytes", 0, "a"),
               Con("atom", "bool", 1, ""), Con("atom", "bool", 0, ""), Con("atom", "null", 0, "") >>

Patterns == <<"^a", "b$">>
\* Match table: which strings of StrOrd match which pattern (checked against
\* Go's regexp package by the harness).
Matches(p, s) ==
  CASE p = "^a" -> s \in {"a", "aa", "ab"}
    [] p = "b$" -> s \in {"ab", "b"}
MatchCons == << Con("match", "string", 0, "^a"), Con("nmatch", "string", 0, "^a"),
                Con("match", "string", 0, "b$"), Con("nmatch", "string", 0, "b$") >>

Ranges == << Con("range", "uint", 0, ""), Con("range", "int8", 0, ""), Con("range", "uint8", 0, "") >>

Misc == << Con("top", "", 0, ""), Con("ne", "null", 0, "") >>

Alphabet == BoundsOf(NumConsts) \o BoundsOf(StrConsts) \o Types \o AtomCons \o MatchCons \o Ranges \o Misc
NAlpha == Len(Alphabet)

\* ---- meaning ----
KindsOf(t) == IF t = "number" THEN {"int", "float"} ELSE {t}

Cmp(op, x, y) ==
  CASE op = "lt" -> x < y
    [] op = "le" -> x <= y
    [] op = "gt" -> x > y
    [] op = "ge" -> x >= y
    [] op = "ne" -> x # y

InRange(name, a) ==
  /\ a.k = "int"
  /\ CASE name = "uint"  -> a.n >= 0
       [] name = "int8"  -> a.n >= 4 * (-128) /\ a.n <= 4 * 127
       [] name = "uint8" -> a.n >= 0 /\ a.n <= 4 * 255

Sat(a, c) ==
  CASE c.op = "top"    -> TRUE
    [] c.op = "type"   -> a.k \in KindsOf(c.k)
    [] c.op = "atom"   -> a = Atom(c.k, c.n, c.s)
    [] c.op = "match"  -> a.k = "string" /\ Matches(c.s, a.s)
    [] c.op = "nmatch" -> a.k = "string" /\ ~Matches(c.s, a.s)
    [] c.op = "range"  -> InRange(c.k, a)
    [] c.op \in {"lt", "le", "gt", "ge", "ne"} ->
         IF c.k = "null" THEN a.k # "null"                 \* only != null exists
         ELSE IF c.k \in {"int", "float"} THEN IsNum(a) /\ Cmp(c.op, a.n, c.n)
         ELSE a.k = c.k /\ Cmp(c.op, SIdx(a.s), SIdx(c.s))

SatTab == [i \in 1..NAlpha |-> {a \in 1..NAtoms : Sat(AtomSeq[a], Alphabet[i])}]

\* ---- generation ----
VARIABLES cs, den
vars == <<cs, den>>

Init == cs = <<>> /\ den = 1..NAtoms

Last == IF cs = <<>> THEN 1 ELSE cs[Len(cs)]

Next == /\ Len(cs) < MaxN
        /\ \E i \in Last..NAlpha :
             /\ cs' = Append(cs, i)
             /\ den' = den \cap SatTab[i]

Spec == Init /\ [][Next]_vars

\* The incremental denotation is the declarative one.
DenIsIntersection ==
  den = {a \in 1..NAtoms : \A j \in DOMAIN cs : Sat(AtomSeq[a], Alphabet[cs[j]])}

\* Adding a conjunct never admits more.
Monotone == [][den' \subseteq den]_vars

\* Order independence of the fold: any permutation of cs folds to den.
\* (Checked for the rotation and the reversal, which generate all
\* permutations of <= 3 elements and are cheap.)
Fold(seq) == LET F[k \in 0..Len(seq)] ==
                   IF k = 0 THEN 1..NAtoms ELSE F[k - 1] \cap SatTab[seq[k]]
             IN F[Len(seq)]
Rev(seq) == [k \in 1..Len(seq) |-> seq[Len(seq) + 1 - k]]
Rot(seq) == IF seq = <<>> THEN seq ELSE Tail(seq) \o <<Head(seq)>>
OrderIndependent == Fold(Rev(cs)) = den /\ Fold(Rot(cs)) = den

\* ---- tables for the harness ----
TablesInit ==
  /\ cs = <<>>
  /\ den = [alphabet |-> Alphabet, atoms |-> AtomSeq, strord |-> StrOrd,
            matches |-> {<<p, s>> \in {Patterns[i] : i \in DOMAIN Patterns} \X {StrOrd[i] : i \in DOMAIN StrOrd} : Matches(p, s)}]
TablesNext == UNCHANGED vars
=============================================================================

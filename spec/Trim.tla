-------------------------------- MODULE Trim --------------------------------
(***************************************************************************)
(* `cue trim`: a package is a set of schema declarations (definitions,     *)
(* patterns, defaults, a comprehension, an embedded disjunction, a         *)
(* computed field) together with data declarations that partly repeat what *)
(* the schemas imply, split over one or two files.                         *)
(*                                                                         *)
(* The property as a protocol over the operation sequence                  *)
(*      P  --trim-->  P1  --trim-->  P2                                    *)
(*   Same(Eval(P1), Eval(P))   the fully evaluated configuration with      *)
(*                             defaults resolved is unchanged, errors too  *)
(*   P2 = P1                   trimming again removes nothing              *)
(*   P1 parses and evaluates                                               *)
(* Every state is one package (which schema and data declarations, which   *)
(* file each data declaration lives in); the harness renders it, runs the  *)
(* real trimmer twice and evaluates all three packages.                    *)
(***************************************************************************)
EXTENDS Integers, Sequences, FiniteSets, TLC

CONSTANTS MaxData, AllVariants

Schemas == <<
  "#D: {a: int, b: *1 | int, c?: string}",
  "x: #D",
  "xs: [string]: {k: *\"d\" | string, n: int}",
  "for k, v in {p: 1, q: 2} {gen: (k): v}",
  "y: *{a: 1} | {a: 2}",
  "z: {a: 1, b: a + 1}",
  "defaults: {port: *8080 | int, host: string | *\"localhost\"}",
  "x: b: >0",
  "lst: [...{v: *0 | int}]",
  "w: {kind: \"W\", spec: {replicas: *1 | int}}",
  "two: {m: *1 | *2 | int, lv: *\"info\" | *\"warn\" | string}",
  \* a comprehension that writes back into the struct it iterates over (the defaults struct is declared first)
  "dd: port: 8080",
  "ss: xx: {port: 8080}",
  "for k, v in ss {ss: \"\\(k)\": dd}"
>>
Data == <<
  "x: a: 5", "x: b: 1", "x: b: 2", "x: c: \"s\"",
  "xs: e: {k: \"d\", n: 1}", "xs: e: k: \"z\"", "xs: f: n: 2",
  "gen: p: 1", "gen: q: 3",
  "y: a: 1", "y: a: 2",
  "z: b: 2", "z: a: 1",
  "defaults: port: 8080", "defaults: port: 9090", "defaults: host: \"localhost\"",
  "lst: [{v: 0}, {v: 2}]",
  "w: spec: replicas: 1", "w: {kind: \"W\", spec: replicas: 3}",
  "two: m: 1", "two: lv: \"warn\"", "two: m: 3"
>>
NS == Len(Schemas)
ND == Len(Data)

VARIABLES schema, data, file2
vars == <<schema, data, file2>>

\* all schemas, or all but one (so that data is no longer implied by it)
Init ==
  /\ schema \in {1..NS} \cup {(1..NS) \ {1, 2}}                               \* x: #D needs #D
                 \* (12, 13 are referenced by the comprehension 14: they are not dropped on their own)
                 \cup (IF AllVariants THEN {(1..NS) \ {i} : i \in (2..NS) \ {12, 13}} \cup {(1..NS) \ {12, 13, 14}} ELSE {(1..NS) \ {7}})
  /\ data \in {S \in SUBSET (1..ND) : Cardinality(S) <= MaxData /\ S # {}}
  /\ file2 \in {{}, data}                  \* data in the same file as the schemas, or in a second file
Next == UNCHANGED vars

TablesInit == schema = [schemas |-> Schemas, data |-> Data] /\ data = {} /\ file2 = {}
=============================================================================

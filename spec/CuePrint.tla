------------------------------ MODULE CuePrint ------------------------------
(***************************************************************************)
(* Printing an evaluated package as CUE and evaluating the text again.     *)
(*                                                                         *)
(* Programs are the seed packages of CueRewrite (fields a, b, c over the   *)
(* conjunct pool) plus one optional extra declaration that brings in an    *)
(* import, a comprehension, a let or an unresolved builtin call.  A        *)
(* behaviour is  Print(profile) ; Reparse ; Eval  and the property says    *)
(* what the re-evaluated value must preserve, per profile:                 *)
(*   Shows(profile) - the aspects of a value the option set promises.      *)
(* "all"   (cue.All)      : everything - data, types and bounds, remaining *)
(*                          disjuncts and defaults, optional / required    *)
(*                          fields, patterns, definitions, closedness      *)
(* "final" (cue.Final)    : the data of concrete fields, defaults resolved *)
(* "eval"  (cue eval)     : the text compiles; data of concrete fields     *)
(*                          (cue eval resolves defaults and hides optional *)
(*                          fields unless asked otherwise)                 *)
(* "export" (cue export --out cue) : like "final", and must fail instead   *)
(*                          of printing when the package is not concrete   *)
(* The printed text must compile on its own in every profile.              *)
(***************************************************************************)
EXTENDS CueRewrite

Extras == <<"",
  "import \"strings\"\nd: strings.ToUpper(\"x\")",
  "import \"strings\"\nd: {s: string, u: strings.ToUpper(s)}",
  "import \"list\"\nd: list.Sum([1, 2]) & int\ne: [...int] & list.MaxItems(3)",
  "d: [for x in [1, 2, 3] if x > 1 {x * 2}]",
  "let L = {p: 1, q: b}\nd: L",
  "d: {#I: int, v: #I, w?: #I}\ne: d.v",
  "import \"struct\"\nd: {[string]: int} & struct.MaxFields(2)",
  "d: {x: 1, y: x + 1, _h: 3, z: _h}",
  "d: *{k: 1} | {k: 2, m: string}",
  \* bounds the printer may simplify (uint, sized integer types, merged ranges)
  "d: int & >0 & <10\ne: {x: int & >=0 & <10, y: uint & <2}",
  "d: >0.0 & <1.5\ne: {x: int & >=-128 & <=127, y: int & >=0 & <=255}",
  "d: number & >=0 & <=2\ne: {x: int & >-1 & <2, y: >=0 & <=1 & int | *\"s\"}",
  \* computed floats (no source literal to copy): large and small exponents, integral values
  "d: 1e3 * 2\ne: [1e2 * 4, 2.5e3 * 2, 1e-8 * 3, 1.5 + 1.5, 7.0 / 2, 1e30 * 10]",
  \* a quoted label that, unquoted, would capture a reference to an outer field of the same name
  "e: int\nd: {\"e\": 1, x: e + 1}">>
Profiles == {"all", "final", "eval", "export"}
Aspects == {"data", "types", "disjuncts", "defaults", "optional", "patterns", "definitions", "closedness", "hidden"}
Shows(p) ==
  CASE p = "all" -> Aspects
    [] p \in {"final", "export", "eval"} -> {"data"}

VARIABLES extra, profile
pvars == <<vars, extra, profile>>
PInit == Init /\ extra \in 1..Len(Extras) /\ profile \in Profiles
PNext == UNCHANGED pvars

PTablesInit == TablesInit /\ extra = 0 /\ profile = [extras |-> Extras]
=============================================================================

INIT TablesInit
NEXT TablesNext
CONSTANT MaxN = 0

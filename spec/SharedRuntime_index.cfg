SPECIFICATION KSpec
CONSTANTS G = 3 Keys = {"a", "b"} NOps = 1 NProgs = 1 MaxCalls = 0
INVARIANTS Injective InverseMap OwnIndex LockExclusive
PROPERTIES AppendOnly KDone

SPECIFICATION Spec
CONSTANTS M = 3 V = 2 Sample = 0 OneVersion = TRUE OlderMain = FALSE
INVARIANTS NoPanic SelectedIsMaxSeen Confluent Sufficient Minimal PrunedBelowFull

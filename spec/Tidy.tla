-------------------------------- MODULE Tidy --------------------------------
(***************************************************************************)
(* `cue mod tidy`: what a correct result is.                               *)
(*                                                                         *)
(* A universe U is the registry content plus the main module:              *)
(*   U.mv[m][v]  = [imps, depv, hasSub]  for registry module m, version v  *)
(*        imps   : packages <<module, pkg>> imported by m's root package    *)
(*                 (pkg 1 = the module's root package, 2 = its "sub" one)   *)
(*        depv   : the version of each imported module listed in m's file  *)
(*        hasSub : whether this version contains the "sub" package         *)
(*   U.main = [imps, deps]   imports of the main module's packages and the *)
(*                 dependency versions currently in cue.mod/module.cue     *)
(*                 (0 = not listed)                                        *)
(* Sets arrive as sequences when a universe is read back from JSON, hence  *)
(* ToSet.                                                                  *)
(*                                                                         *)
(* TidyOK(U, out) transcribes the property: with the dependencies `out`    *)
(* every import of every package in the import closure of the main module  *)
(* resolves, `out` lists exactly the modules providing a package of that   *)
(* closure, each at its minimal-version-selection version, and nothing is  *)
(* lower than what the module file required before.                        *)
(***************************************************************************)
EXTENDS Integers, Sequences, FiniteSets, TLC, Randomization, SequencesExt

CONSTANTS NM, NV, Sample

Mods == 1..NM
Vers == 1..NV
Refs == Mods \X {1, 2}


\* ---- reading a universe ----
Imps(U, m, v) == {r \in ToSet(U.mv[m][v].imps) : r[1] # m}
ImpMods(U, m, v) == {r[1] : r \in Imps(U, m, v)}
Req(U, m, v) == {<<d, U.mv[m][v].depv[d]>> : d \in {x \in Mods : U.mv[m][v].depv[x] # 0}}
Provides(U, m, v, p) == p = 1 \/ U.mv[m][v].hasSub
MainImps(U) == ToSet(U.main.imps)

MaxOf(S) == IF S = {} THEN 0 ELSE CHOOSE x \in S : \A y \in S : y <= x

\* Minimal version selection over the *pruned* requirement graph used by the
\* implementation (modrequirements.readModGraph): the main module's listed
\* dependencies and what each of those lists itself.  Module files are
\* expected to list their complete transitive dependencies, so nothing
\* deeper is consulted.
Sel(U, roots) ==
  LET S0 == {<<m, roots[m]>> : m \in {x \in Mods : roots[x] # 0}}
      R == S0 \cup UNION {Req(U, n[1], n[2]) : n \in S0}
  IN [m \in Mods |-> MaxOf({n[2] : n \in {x \in R : x[1] = m}})]

\* packages in the import closure of the main module under a selection
RECURSIVE ClosureN(_, _, _, _)
ClosureN(U, sel, S, fuel) ==
  IF fuel = 0 THEN S
  ELSE LET nx == S \cup UNION {IF r[2] = 1 /\ sel[r[1]] # 0 THEN Imps(U, r[1], sel[r[1]]) ELSE {} : r \in S} IN
       IF nx = S THEN S ELSE ClosureN(U, sel, nx, fuel - 1)
Closure(U, sel) == ClosureN(U, sel, MainImps(U), 2 * NM + 1)

Missing(U, sel) == {r \in Closure(U, sel) : sel[r[1]] = 0 \/ ~Provides(U, r[1], sel[r[1]], r[2])}
Needed(U, sel) == {r[1] : r \in Closure(U, sel)}

TidyOK(U, out) ==
  LET sel == Sel(U, out) IN
  /\ Missing(U, sel) = {}                                        \* every import resolves
  /\ \A m \in Mods : out[m] = IF m \in Needed(U, sel) THEN sel[m] ELSE 0   \* exactly the needed modules, at MVS versions
NotLower(U, out) == \A m \in Mods : out[m] # 0 => out[m] >= U.main.deps[m]

Solvable(U) == \E out \in [Mods -> 0..NV] : TidyOK(U, out) /\ NotLower(U, out)

\* ---- an abstract tidy, following the implementation's strategy: keep the
\* current roots, add the latest version of a module whose package is not
\* in the build list, iterate, finally drop what provides nothing.
RECURSIVE Iter(_, _, _)
Iter(U, roots, fuel) ==
  LET sel == Sel(U, roots)
      add == {r[1] : r \in {x \in Closure(U, sel) : sel[x[1]] = 0}}
      \* a package absent from a module that is already selected is reported at once
      absent == {r \in Closure(U, sel) : sel[r[1]] # 0 /\ ~Provides(U, r[1], sel[r[1]], r[2])}
  IN IF absent # {} \/ (add # {} /\ fuel = 0) THEN [ok |-> FALSE, out |-> roots]
     ELSE IF add = {}
       THEN LET out == [m \in Mods |-> IF m \in Needed(U, sel) THEN sel[m] ELSE 0]
            IN [ok |-> TidyOK(U, out) /\ NotLower(U, out), out |-> out]
     ELSE Iter(U, [m \in Mods |-> IF m \in add THEN NV ELSE roots[m]], fuel - 1)
AbstractTidy(U) == Iter(U, U.main.deps, NM + 1)

\* ---- generation of universes ----
\* Registry modules are themselves tidy, as published modules are: a module's
\* imports do not depend on its version and point to higher-numbered modules
\* (acyclic), a module has its sub package from version subFrom on, and the
\* dependencies listed by <<m, v>> are the closure of its direct choices
\* under the same pruned selection.
Raw == [imp : [Mods -> SUBSET Refs], depv : [Mods \X Vers -> [Mods -> Vers]], subFrom : [Mods -> Vers]]
MainOpt == [imps : SUBSET Refs, deps : [Mods -> 0..NV]]
Max2(a, b) == IF a >= b THEN a ELSE b

RawImps(f, m) == {r \in f.imp[m] : r[1] > m}

\* listed dependencies of every registry module version, computed bottom-up
\* from the highest module (imports point upwards); TLCEval keeps the
\* intermediate tables concrete so nothing is re-evaluated lazily.
Zero == [x \in Mods |-> 0]
DepsOf(f, acc, m, v) ==
  LET imps == RawImps(f, m)
      dir == TLCEval([d \in Mods |-> IF d \in {r[1] : r \in imps}
                              THEN Max2(f.depv[<<m, v>>][d], IF <<d, 2>> \in imps THEN f.subFrom[d] ELSE 1)
                              ELSE 0])
      Step(L) == TLCEval([x \in Mods |-> MaxOf({L[x]} \cup {acc[<<d, L[d]>>][x] : d \in {y \in Mods : L[y] # 0}})])
      L1 == Step(dir)
      L2 == Step(L1)
      L3 == Step(L2)
  IN Step(L3)
RECURSIVE Build(_, _, _)
Build(f, m, acc) ==
  IF m = 0 THEN acc
  ELSE Build(f, m - 1, TLCEval([p \in Mods \X Vers |-> IF p[1] = m THEN DepsOf(f, acc, m, p[2]) ELSE acc[p]]))
RDAll(f) == Build(f, NM, [p \in Mods \X Vers |-> Zero])

\* f.tidy = FALSE gives a registry whose module files list only their direct
\* dependencies (as published by hand or by an older tool): the result must
\* still be a fixpoint and list minimal-version-selection versions.
Norm(f, mn) ==
  LET D == IF f.tidy THEN RDAll(f) ELSE [p \in Mods \X Vers |-> DepsOf(f, [q \in Mods \X Vers |-> Zero], p[1], p[2])] IN
  [mv |-> [m \in Mods |-> [v \in Vers |->
             [imps |-> SetToSeq(RawImps(f, m)),
              depv |-> D[<<m, v>>],
              hasSub |-> v >= f.subFrom[m]]]],
   main |-> [imps |-> SetToSeq(mn.imps), deps |-> mn.deps]]

VARIABLES u, abs
vars == <<u, abs>>

Init ==
  /\ \E imp \in RandomSubset(Sample, [Mods -> SUBSET Refs]),
        dv \in RandomSubset(4, [Mods \X Vers -> [Mods -> Vers]]),
        sf \in RandomSubset(3, [Mods -> Vers]),
        mn \in RandomSubset(14, MainOpt), td \in BOOLEAN :
       u = Norm([imp |-> imp, depv |-> dv, subFrom |-> sf, tidy |-> td], mn)
  /\ abs = AbstractTidy(u)
Next == UNCHANGED vars

\* the model's own theorems
AbstractIsTidy == abs.ok => TidyOK(u, abs.out) /\ NotLower(u, abs.out)
AbstractIdempotent ==
  abs.ok => AbstractTidy([u EXCEPT !.main.deps = abs.out]).out = abs.out
=============================================================================
